package main

import (
	"fmt"
	"os"

	"dsim/simdisk"

	"github.com/diskfs/go-diskfs/filesystem/iso9660"
)

func main() {
	ws, _ := os.MkdirTemp("/dev/shm", "isodbg")
	defer os.RemoveAll(ws)
	os.WriteFile(ws+"/README.TXT", nil, 0o644)
	os.WriteFile(ws+"/b.txt", []byte("hello"), 0o644)
	
	
	size := int64(4 << 20)
	d := simdisk.New(size)
	fs, err := iso9660.Create(d, size, 0, 2048, ws)
	fmt.Println(err)
	fmt.Println(fs.Finalize(iso9660.FinalizeOptions{Joliet: true}))
	svd := d.Peek(32768+2048, 2048)
	lba := int64(svd[158]) | int64(svd[159])<<8 | int64(svd[160])<<16
	sz := int64(svd[166]) | int64(svd[167])<<8
	fmt.Println("svd type", svd[0], "root lba", lba, "size", sz)
	dir := d.Peek(lba*2048, 2048)
	for i := 0; i < 400; {
		rl := int(dir[i])
		if rl == 0 {
			break
		}
		fmt.Printf("rec@%d len=%d lba=%d size=%d flags=%x namelen=%d name=%q\n", i, rl, int(dir[i+2])|int(dir[i+3])<<8, int(dir[i+10])|int(dir[i+11])<<8, dir[i+25], dir[i+32], dir[i+33:i+33+int(dir[i+32])])
		i += rl
	}
	r, err := iso9660.Read(d, size, 0, 2048)
	fmt.Println(err)
	ents, err := r.ReadDir(".")
	fmt.Println(len(ents), err)
	for _, e := range ents {
		fmt.Printf("%q dir=%v\n", e.Name(), e.IsDir())
	}
	ents, err = r.ReadDir("dir1")
	fmt.Println(len(ents), err)
}
