// mkoverlay prepares a `go build -overlay` for the squashfs package of the go-diskfs working
// tree: every X.Lock()/X.Unlock()/X.RLock()/X.RUnlock() call (also under defer) in
// filesystem/squashfs/*.go is rewritten into dsimLock(&X)/dsimUnlock(&X), and one extra file
// is added to the package with those functions, the hook variables the scheduler sets, and
// read-only accessors for the LRU cache. Nothing in /repo is modified.
//
// usage: mkoverlay <repo dir> <out dir>   (writes <out>/overlay.json)
package main

import (
	"bytes"
	"encoding/json"
	"fmt"
	"go/ast"
	"go/format"
	"go/parser"
	"go/token"
	"os"
	"path/filepath"
	"strings"
)

const extra = `package squashfs

import (
	"fmt"
	"sync"
	"unsafe"
)

// DsimLockHook / DsimUnlockHook are set by the deterministic scheduler. before is called
// before the real Lock (it returns once the scheduler's lock model grants the lock), after
// is called after the real Unlock.
var (
	DsimLockHook   func(id uintptr, name string)
	DsimUnlockHook func(id uintptr, name string)
	// DsimPointHook is called at extra pre-emption points that the rewrite places behind calls into the
	// (de)compressors, which filesystems share between all their readers.
	DsimPointHook func(name string)
)

func dsimPoint(name string) {
	if DsimPointHook != nil {
		DsimPointHook(name)
	}
}

func dsimLock[T any](p *T, name string) {
	l, ok := any(p).(sync.Locker)
	if !ok {
		panic("dsim overlay: lock expression is not addressable as a sync.Locker: " + name)
	}
	if DsimLockHook != nil {
		DsimLockHook(uintptr(unsafe.Pointer(p)), name)
	}
	l.Lock()
}

func dsimUnlock[T any](p *T, name string) {
	l, ok := any(p).(sync.Locker)
	if !ok {
		panic("dsim overlay: lock expression is not addressable as a sync.Locker: " + name)
	}
	l.Unlock()
	if DsimUnlockHook != nil {
		DsimUnlockHook(uintptr(unsafe.Pointer(p)), name)
	}
}

// DsimLRUCheck verifies the structural invariants of the block cache. It must only be called
// while no task holds the cache lock. It returns the number of cached blocks and the limit.
func DsimLRUCheck(fs *FileSystem) (blocks, limit int, err error) {
	l := fs.cache
	if l == nil {
		return 0, 0, nil
	}
	seen := map[*lruBlock]bool{}
	n := 0
	for b := l.root.next; b != &l.root; b = b.next {
		if b == nil {
			return n, l.maxBlocks, fmt.Errorf("LRU list broken: nil next pointer after %d blocks", n)
		}
		if seen[b] {
			return n, l.maxBlocks, fmt.Errorf("LRU list has a cycle at block pos %d", b.pos)
		}
		seen[b] = true
		if b.next == nil || b.next.prev != b {
			return n, l.maxBlocks, fmt.Errorf("LRU list back-link broken at block pos %d", b.pos)
		}
		if c, ok := l.cache[b.pos]; !ok || c != b {
			return n, l.maxBlocks, fmt.Errorf("block pos %d is linked in the LRU list but not (or differently) in the map", b.pos)
		}
		n++
		if n > 1<<20 {
			return n, l.maxBlocks, fmt.Errorf("LRU list does not terminate")
		}
	}
	if n != len(l.cache) {
		return n, l.maxBlocks, fmt.Errorf("LRU map holds %d blocks but the list links %d (a block is both evicted and cached, or cached and unlinked)", len(l.cache), n)
	}
	for pos, b := range l.cache {
		if b.pos != pos {
			return n, l.maxBlocks, fmt.Errorf("map key %d holds block pos %d", pos, b.pos)
		}
	}
	return n, l.maxBlocks, nil
}
`

func main() {
	if len(os.Args) != 3 {
		fmt.Fprintln(os.Stderr, "usage: mkoverlay <repo dir> <out dir>")
		os.Exit(2)
	}
	repo, out := os.Args[1], os.Args[2]
	pkgDir := filepath.Join(repo, "filesystem", "squashfs")
	if err := os.MkdirAll(out, 0o755); err != nil {
		panic(err)
	}
	files, _ := filepath.Glob(filepath.Join(pkgDir, "*.go"))
	replace := map[string]string{}
	rewritten := 0
	points := 0
	for _, f := range files {
		if strings.HasSuffix(f, "_test.go") {
			continue
		}
		fset := token.NewFileSet()
		af, err := parser.ParseFile(fset, f, nil, parser.ParseComments)
		if err != nil {
			fmt.Fprintln(os.Stderr, "parse:", err)
			os.Exit(2)
		}
		changed := false
		ast.Inspect(af, func(n ast.Node) bool {
			ce, ok := n.(*ast.CallExpr)
			if !ok || len(ce.Args) != 0 {
				return true
			}
			se, ok := ce.Fun.(*ast.SelectorExpr)
			if !ok {
				return true
			}
			var fn string
			switch se.Sel.Name {
			case "Lock", "RLock":
				fn = "dsimLock"
			case "Unlock", "RUnlock":
				fn = "dsimUnlock"
			default:
				return true
			}
			var buf bytes.Buffer
			_ = format.Node(&buf, fset, se.X)
			name := buf.String()
			ce.Fun = ast.NewIdent(fn)
			ce.Args = []ast.Expr{&ast.UnaryExpr{Op: token.AND, X: se.X}, &ast.BasicLit{Kind: token.STRING, Value: fmt.Sprintf("%q", name)}}
			changed = true
			rewritten++
			return true
		})
		// a pre-emption point behind every statement that calls compress/decompress of a compressor
		ast.Inspect(af, func(n ast.Node) bool {
			bl, ok := n.(*ast.BlockStmt)
			if !ok {
				return true
			}
			var out []ast.Stmt
			for _, st := range bl.List {
				out = append(out, st)
				switch st.(type) {
				case *ast.AssignStmt, *ast.ExprStmt:
				default:
					continue
				}
				calls := false
				ast.Inspect(st, func(m ast.Node) bool {
					if _, isLit := m.(*ast.FuncLit); isLit {
						return false
					}
					if ce, ok := m.(*ast.CallExpr); ok {
						if se, ok := ce.Fun.(*ast.SelectorExpr); ok && (se.Sel.Name == "decompress" || se.Sel.Name == "compress") {
							calls = true
						}
					}
					return true
				})
				if calls {
					out = append(out, &ast.ExprStmt{X: &ast.CallExpr{Fun: ast.NewIdent("dsimPoint"), Args: []ast.Expr{&ast.BasicLit{Kind: token.STRING, Value: `"codec"`}}}})
					changed = true
					points++
				}
			}
			bl.List = out
			return true
		})
		if !changed {
			continue
		}
		var buf bytes.Buffer
		if err := format.Node(&buf, fset, af); err != nil {
			panic(err)
		}
		dst := filepath.Join(out, "sq_"+filepath.Base(f))
		if err := os.WriteFile(dst, buf.Bytes(), 0o644); err != nil {
			panic(err)
		}
		replace[f] = dst
	}
	extraPath := filepath.Join(out, "sq_dsim_hooks.go")
	if err := os.WriteFile(extraPath, []byte(extra), 0o644); err != nil {
		panic(err)
	}
	replace[filepath.Join(pkgDir, "zz_dsim_hooks.go")] = extraPath
	b, _ := json.MarshalIndent(map[string]any{"Replace": replace}, "", " ")
	if err := os.WriteFile(filepath.Join(out, "overlay.json"), b, 0o644); err != nil {
		panic(err)
	}
	fmt.Printf("mkoverlay: %d lock call sites rewritten, %d codec points added, in %d files\n", rewritten, points, len(replace)-1)
}
