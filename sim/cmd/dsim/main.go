// dsim is the runner: `dsim run <prop> <tier>` spawns worker processes that execute seeded
// simulated runs, shrinks and confirms violations, filters them through known_findings.jsonl
// and writes evidence/<prop>.json. `dsim replay <file>` re-executes one trace.
package main

import (
	"bufio"
	"encoding/json"
	"fmt"
	"os"
	"os/exec"
	"path/filepath"
	"runtime/pprof"
	"sort"
	"strconv"
	"strings"
	"sync"
	"syscall"
	"time"

	"dsim/core"
	_ "dsim/props"
)

const (
	exitOK    = 0
	exitViol  = 1
	exitInfra = 2
	exitHang  = 3
)

func verifDir() string {
	if d := os.Getenv("VERIF_DIR"); d != "" {
		return d
	}
	return "/verif"
}

// outDir is where replays/ and evidence/ are written: /verif, unless VERIF_OUT names another directory
// (used when a deliberately broken tree is checked, so that the committed evidence stays that of the real tree).
func outDir() string {
	if d := os.Getenv("VERIF_OUT"); d != "" {
		return d
	}
	return verifDir()
}

func main() {
	if len(os.Args) < 2 {
		usage()
	}
	switch os.Args[1] {
	case "run":
		if len(os.Args) < 4 {
			usage()
		}
		os.Exit(runParent(os.Args[2], os.Args[3]))
	case "worker":
		rc := runWorker(os.Args[2:])
		core.RunAtExit()
		os.Exit(rc)
	case "replay":
		if len(os.Args) < 3 {
			usage()
		}
		rc := runReplay(os.Args[2], true)
		core.RunAtExit()
		os.Exit(rc)
	case "list":
		for _, id := range core.IDs() {
			fmt.Println(id)
		}
	case "digest": // dsim digest <prop> <tier> <from> <n>: one line per run with a digest of everything the run reports
		rc := runDigest(os.Args[2], os.Args[3], os.Args[4], os.Args[5])
		core.RunAtExit()
		os.Exit(rc)
	case "gen": // dsim gen <prop> <tier> <idx>: print the trace a run would execute
		p := core.Get(os.Args[2])
		idx, _ := strconv.Atoi(os.Args[4])
		seed := core.Mix(baseSeed(), core.HashStr(p.ID()), uint64(idx))
		t := p.Gen(core.NewRng(seed), os.Args[3], idx)
		t.Seed = seed
		b, _ := json.MarshalIndent(t, "", " ")
		fmt.Println(string(b))
	default:
		usage()
	}
}

// runDigest executes runs [from, from+n) of a property one after the other and prints, per run, a digest of the
// generated trace and of everything the run reports (verdict, counters, probes, faults, state hashes). The
// determinism self-test runs it in several fresh processes with different GOMAXPROCS and compares the output.
// Probes that depend on CPU time (names containing "cpu") are left out: they are documented as load dependent.
func runDigest(prop, tier, fromS, nS string) int {
	p := core.Get(prop)
	if p == nil {
		fmt.Fprintln(os.Stderr, "unknown property", prop)
		return exitInfra
	}
	from, _ := strconv.Atoi(fromS)
	n, _ := strconv.Atoi(nS)
	lim := uint64(envInt("VERIF_AS_GIB", 12)) << 30
	_ = syscall.Setrlimit(syscall.RLIMIT_AS, &syscall.Rlimit{Cur: lim, Max: lim})
	base := baseSeed()
	for idx := from; idx < from+n; idx++ {
		seed := core.Mix(base, core.HashStr(prop), uint64(idx))
		t := p.Gen(core.NewRng(seed), tier, idx)
		t.Property, t.Seed, t.Tier = prop, seed, tier
		tb, _ := json.Marshal(t)
		res := core.SafeExec(p, t)
		sig := ""
		if res.V != nil {
			sig = res.V.Clause + "|" + res.V.Trigger + "|" + res.V.Locus
		}
		var kv []string
		for k, v := range res.Probes {
			if !strings.Contains(k, "cpu") {
				kv = append(kv, fmt.Sprintf("p:%s=%d", k, v))
			}
		}
		for k, v := range res.Faults {
			kv = append(kv, fmt.Sprintf("f:%s=%d", k, v))
		}
		sort.Strings(kv)
		hs := append([]uint64(nil), res.Hashes...)
		sort.Slice(hs, func(i, j int) bool { return hs[i] < hs[j] })
		var hh uint64
		for _, h := range hs {
			hh = core.Mix(hh, h)
		}
		fmt.Printf("%d trace=%016x sig=%q evals=%d steps=%d devops=%d hashes=%d:%016x %s\n", idx, core.HashStr(string(tb)), sig, res.Evals, res.Steps, res.DevOps, len(hs), hh, strings.Join(kv, " "))
	}
	return 0
}

func usage() {
	fmt.Fprintln(os.Stderr, "usage: dsim run <prop> quick|thorough | replay <file> | list")
	os.Exit(exitInfra)
}

func baseSeed() uint64 {
	if s := os.Getenv("VERIF_SEED"); s != "" {
		if v, err := strconv.ParseUint(s, 10, 64); err == nil {
			return v
		}
		if v, err := strconv.ParseInt(s, 10, 64); err == nil {
			return uint64(v)
		}
	}
	return 1
}

func envInt(name string, def int) int {
	if s := os.Getenv(name); s != "" {
		if v, err := strconv.Atoi(s); err == nil {
			return v
		}
	}
	return def
}

// ---------------------------------------------------------------- worker

type wmsg struct {
	T      string `json:"t"` // start | viol | hang | done
	Idx    int    `json:"idx,omitempty"`
	Sig    string `json:"sig,omitempty"`
	Replay string `json:"replay,omitempty"`
	Detail string `json:"detail,omitempty"`
	Ops    int    `json:"ops,omitempty"`

	Runs    int64            `json:"runs,omitempty"`
	Evals   int64            `json:"evals,omitempty"`
	Steps   int64            `json:"steps,omitempty"`
	DevOps  int64            `json:"devops,omitempty"`
	SimTime float64          `json:"simtime,omitempty"`
	Faults  map[string]int64 `json:"faults,omitempty"`
	Probes  map[string]int64 `json:"probes,omitempty"`
	Hashes  []uint64         `json:"hashes,omitempty"`
	Samples []string         `json:"samples,omitempty"`
	SigCnt  map[string]int64 `json:"sigcnt,omitempty"`
	Shrinks int64            `json:"shrinks,omitempty"`
}

type budgeter interface {
	Budget(tier string) (seconds int, maxRuns int, runTimeoutSec int)
}

func budgetOf(p core.Property, tier string) (int, int, int) {
	sec, runs, rt := 45, 1<<30, 60
	if tier == "thorough" {
		sec, rt = 1200, 300
	}
	if b, ok := p.(budgeter); ok {
		sec, runs, rt = b.Budget(tier)
	}
	if v := envInt("VERIF_SECONDS", 0); v > 0 {
		sec = v
	}
	if v := envInt("VERIF_RUNS", 0); v > 0 {
		runs = v
	}
	return sec, runs, rt
}

func markerPath(prop string, w int) string {
	d := filepath.Join(outDir(), ".build")
	_ = os.MkdirAll(d, 0o755)
	return filepath.Join(d, fmt.Sprintf("case-%s-%d.marker", prop, w))
}

func replayPath(prop, sig string) string {
	return filepath.Join(outDir(), "replays", fmt.Sprintf("%s-%016x.json", prop, core.HashStr(sig)))
}

// runWorker args: prop tier w W startIdx deadlineUnix
func runWorker(a []string) int {
	prop, tier := a[0], a[1]
	w, _ := strconv.Atoi(a[2])
	W, _ := strconv.Atoi(a[3])
	start, _ := strconv.Atoi(a[4])
	dl, _ := strconv.ParseInt(a[5], 10, 64)
	deadline := time.Unix(dl, 0)
	p := core.Get(prop)
	if p == nil {
		fmt.Fprintln(os.Stderr, "unknown property", prop)
		return exitInfra
	}
	// address-space limit so that a runaway allocation kills this worker, not the sandbox
	lim := uint64(envInt("VERIF_AS_GIB", 12)) << 30
	_ = syscall.Setrlimit(syscall.RLIMIT_AS, &syscall.Rlimit{Cur: lim, Max: lim})

	_, maxRuns, runTimeout := budgetOf(p, tier)
	_ = core.EnableCaseMarker(markerPath(prop, w))
	out := bufio.NewWriterSize(os.Stdout, 1<<16)
	emit := func(m wmsg) {
		b, _ := json.Marshal(m)
		out.Write(b)
		out.WriteByte('\n')
		out.Flush()
	}
	agg := wmsg{T: "done", Faults: map[string]int64{}, Probes: map[string]int64{}, SigCnt: map[string]int64{}}
	hashes := map[uint64]struct{}{}
	shrunk := map[string]bool{}
	base := baseSeed()
	for idx := start + w; idx < maxRuns; idx += W {
		if time.Now().After(deadline) {
			break
		}
		seed := core.Mix(base, core.HashStr(prop), uint64(idx))
		t := p.Gen(core.NewRng(seed), tier, idx)
		t.Property = prop
		t.Seed = seed
		t.Tier = tier
		core.ClearCase()
		emit(wmsg{T: "start", Idx: idx})
		var res *core.Result
		done := make(chan struct{})
		go func() { res = core.SafeExec(p, t); close(done) }()
		// A run is taken for hung when its time limit has passed and the process has stopped making progress
		// (less than a second of CPU time over the last 30 s of wall time: blocked), or when five times the limit
		// has passed (busy but endless). On a loaded machine a slow run keeps consuming CPU and is left alone.
		hung := false
		t0run := time.Now()
		cpuAt, cpuThen := time.Now(), core.CPUSeconds()
	waitRun:
		for {
			select {
			case <-done:
				break waitRun
			case <-time.After(5 * time.Second):
				el := time.Since(t0run)
				if time.Since(cpuAt) >= 30*time.Second {
					now := core.CPUSeconds()
					if el > time.Duration(runTimeout)*time.Second && now-cpuThen < 1 {
						hung = true
						break waitRun
					}
					cpuAt, cpuThen = time.Now(), now
				}
				if el > 5*time.Duration(runTimeout)*time.Second {
					hung = true
					break waitRun
				}
			}
		}
		if hung {
			if mt := core.ReadCaseMarker(markerPath(prop, w)); mt != nil {
				mt.Property, mt.Seed, mt.Tier = prop, seed, tier
				t = mt
			}
			t.Signature = prop + ".hang|run|unknown"
			path := filepath.Join(outDir(), "replays", fmt.Sprintf("%s-hang-%d.json", prop, idx))
			_ = t.Save(path)
			emit(wmsg{T: "hang", Idx: idx, Replay: path, Sig: t.Signature})
			agg.Runs++
			finish(&agg, hashes)
			emit(agg)
			return exitHang
		}
		agg.Runs++
		agg.Evals += max64(res.Evals, 1)
		agg.Steps += res.Steps
		agg.DevOps += res.DevOps
		agg.SimTime += res.SimTimeSec
		for k, v := range res.Faults {
			agg.Faults[k] += v
		}
		for k, v := range res.Probes {
			agg.Probes[k] += v
		}
		if len(hashes) < 4_000_000 {
			for _, h := range res.Hashes {
				hashes[h] = struct{}{}
			}
		}
		if len(agg.Samples) < 3 && res.V == nil {
			s := res.Sample
			if s == "" {
				s = t.Summary()
			}
			agg.Samples = append(agg.Samples, s)
		}
		if res.V != nil {
			sig := res.V.Sig()
			agg.SigCnt[sig]++
			if !shrunk[sig] {
				shrunk[sig] = true
				nt := t
				if res.Narrow != nil {
					nt = res.Narrow
					nt.Property, nt.Seed, nt.Tier = prop, seed, tier
				}
				min, n := core.Shrink(p, nt, sig, envInt("VERIF_SHRINK_EXECS", 400))
				agg.Shrinks += int64(n)
				// final detail from the minimised trace
				r2 := core.SafeExec(p, min)
				detail := res.V.Detail
				if r2 != nil && r2.V != nil && r2.V.Sig() == sig {
					detail = r2.V.Detail
				} else {
					min = nt // shrinking lost it (should not happen); keep the original
				}
				min.Signature = sig
				min.Detail = detail
				path := replayPath(prop, sig)
				keep := true
				if old, err := core.LoadTrace(path); err == nil && old.Signature == sig && len(old.Ops) <= len(min.Ops) {
					keep = false
				}
				if keep {
					tmp := fmt.Sprintf("%s.%d.tmp", path, os.Getpid())
					if err := min.Save(tmp); err == nil {
						_ = os.Rename(tmp, path)
					}
				}
				emit(wmsg{T: "viol", Idx: idx, Sig: sig, Replay: path, Detail: detail, Ops: len(min.Ops)})
			}
		}
	}
	finish(&agg, hashes)
	emit(agg)
	return exitOK
}

func finish(agg *wmsg, hashes map[uint64]struct{}) {
	agg.Hashes = make([]uint64, 0, len(hashes))
	for h := range hashes {
		agg.Hashes = append(agg.Hashes, h)
	}
	sort.Slice(agg.Hashes, func(i, j int) bool { return agg.Hashes[i] < agg.Hashes[j] })
}

func max64(a, b int64) int64 {
	if a > b {
		return a
	}
	return b
}

// ---------------------------------------------------------------- replay

func runReplay(path string, verbose bool) int {
	t, err := core.LoadTrace(path)
	if err != nil {
		fmt.Fprintln(os.Stderr, "cannot load replay:", err)
		return exitInfra
	}
	p := core.Get(t.Property)
	if p == nil {
		fmt.Fprintln(os.Stderr, "unknown property", t.Property)
		return exitInfra
	}
	if pf := os.Getenv("VERIF_CPUPROFILE"); pf != "" && verbose {
		// diagnosis aid for .slow findings: go tool pprof -top .build/dsim <file>
		if f, err := os.Create(pf); err == nil {
			if pprof.StartCPUProfile(f) == nil {
				core.AtExit(func() { pprof.StopCPUProfile(); f.Close() })
			}
		}
	}
	lim := uint64(envInt("VERIF_AS_GIB", 12)) << 30
	_ = syscall.Setrlimit(syscall.RLIMIT_AS, &syscall.Rlimit{Cur: lim, Max: lim})
	res := core.SafeExec(p, t)
	if res.V == nil {
		fmt.Printf("REPLAY-OK property=%s no violation (recorded signature: %q)\n", t.Property, t.Signature)
		if verbose {
			fmt.Printf("sample: %s\nprobes: %v faults: %v evals: %d\n", res.Sample, res.Probes, res.Faults, res.Evals)
		}
		return exitOK
	}
	fmt.Printf("REPLAY-SIGNATURE %s\n", res.V.Sig())
	if verbose {
		fmt.Printf("detail: %s\n", res.V.Detail)
	}
	fmt.Printf("VIOLATION property=%s replay=%s\n", t.Property, path)
	return exitViol
}

// ---------------------------------------------------------------- parent

type finding struct {
	Status    string `json:"status"` // open | fixed
	Property  string `json:"property"`
	Signature string `json:"signature"`
	What      string `json:"what"`
	Replay    string `json:"replay,omitempty"`
	Commit    string `json:"commit,omitempty"`
}

func loadFindings() []finding {
	var out []finding
	f, err := os.Open(filepath.Join(verifDir(), "known_findings.jsonl"))
	if err != nil {
		return nil
	}
	defer f.Close()
	sc := bufio.NewScanner(f)
	sc.Buffer(make([]byte, 1<<20), 1<<20)
	for sc.Scan() {
		ln := strings.TrimSpace(sc.Text())
		if ln == "" || strings.HasPrefix(ln, "#") {
			continue
		}
		var fd finding
		if json.Unmarshal([]byte(ln), &fd) == nil {
			out = append(out, fd)
		}
	}
	return out
}

func runParent(prop, tier string) int {
	p := core.Get(prop)
	if p == nil {
		fmt.Fprintln(os.Stderr, "unknown property", prop)
		return exitInfra
	}
	if tier != "quick" && tier != "thorough" {
		fmt.Fprintln(os.Stderr, "tier must be quick or thorough")
		return exitInfra
	}
	t0 := time.Now()
	sec, maxRuns, _ := budgetOf(p, tier)
	W := 8
	if tier == "thorough" {
		W = 16
	}
	W = envInt("VERIF_WORKERS", W)
	if maxRuns < W {
		W = maxRuns
	}
	_ = os.MkdirAll(filepath.Join(outDir(), "replays"), 0o755)
	_ = os.MkdirAll(filepath.Join(outDir(), "evidence"), 0o755)
	deadline := time.Now().Add(time.Duration(sec) * time.Second)
	self, _ := os.Executable()

	var mu sync.Mutex
	total := wmsg{Faults: map[string]int64{}, Probes: map[string]int64{}, SigCnt: map[string]int64{}}
	hashes := map[uint64]struct{}{}
	type vrec struct {
		sig, replay, detail string
		ops                 int
		bin                 string
	}
	viols := map[string]vrec{}
	infra := []string{}
	// a second wave runs the same property from another binary (C17: the -race build)
	waves := []struct {
		bin      string
		deadline time.Time
		base     int
	}{{self, deadline, 0}}
	if rb := os.Getenv("VERIF_RACE_BIN"); rb != "" {
		if _, err := os.Stat(rb); err == nil {
			rsec := envInt("VERIF_RACE_SECONDS", sec/2+5)
			waves = append(waves, struct {
				bin      string
				deadline time.Time
				base     int
			}{rb, deadline.Add(time.Duration(rsec) * time.Second), 10_000_000})
		}
	}
	for wi, wave := range waves {
		self := wave.bin
		deadline := wave.deadline
		if wi > 0 {
			total.Faults["race-detector-wave"]++
		}
		var wg sync.WaitGroup
		for w := 0; w < W; w++ {
			wg.Add(1)
			go func(w int) {
				defer wg.Done()
				start := wave.base
				for attempt := 0; attempt < 50; attempt++ {
					if time.Now().After(deadline) {
						return
					}
					cmd := exec.Command(self, "worker", prop, tier, strconv.Itoa(w), strconv.Itoa(W), strconv.Itoa(start), strconv.FormatInt(deadline.Unix(), 10))
					cmd.Env = append(os.Environ(), "GOMAXPROCS="+strconv.Itoa(envInt("VERIF_WORKER_PROCS", 2)), "GORACE=halt_on_error=1 exitcode=66")
					stdout, _ := cmd.StdoutPipe()
					var stderr strings.Builder
					cmd.Stderr = &stderr
					if err := cmd.Start(); err != nil {
						mu.Lock()
						infra = append(infra, "cannot start worker: "+err.Error())
						mu.Unlock()
						return
					}
					dec := json.NewDecoder(bufio.NewReaderSize(stdout, 1<<20))
					lastIdx := -1
					gotDone := false
					hang := false
					for {
						var m wmsg
						if err := dec.Decode(&m); err != nil {
							break
						}
						switch m.T {
						case "start":
							lastIdx = m.Idx
						case "viol":
							mu.Lock()
							if old, ok := viols[m.Sig]; !ok || m.Ops < old.ops {
								viols[m.Sig] = vrec{m.Sig, m.Replay, m.Detail, m.Ops, self}
							}
							mu.Unlock()
						case "hang":
							hang = true
							mu.Lock()
							viols[m.Sig] = vrec{m.Sig, m.Replay, "run exceeded the per-run watchdog", 0, self}
							mu.Unlock()
						case "done":
							gotDone = true
							mu.Lock()
							total.Runs += m.Runs
							total.Evals += m.Evals
							total.Steps += m.Steps
							total.DevOps += m.DevOps
							total.SimTime += m.SimTime
							total.Shrinks += m.Shrinks
							for k, v := range m.Faults {
								total.Faults[k] += v
							}
							for k, v := range m.Probes {
								total.Probes[k] += v
							}
							for k, v := range m.SigCnt {
								total.SigCnt[k] += v
							}
							for _, h := range m.Hashes {
								hashes[h] = struct{}{}
							}
							if len(total.Samples) < 5 {
								total.Samples = append(total.Samples, m.Samples...)
							}
							mu.Unlock()
						}
					}
					err := cmd.Wait()
					// a worker that died could not remove its scratch directory
					for _, base := range []string{"/dev/shm", "/var/tmp", os.Getenv("VERIF_SCRATCH")} {
						if base != "" {
							_ = os.RemoveAll(filepath.Join(base, fmt.Sprintf("dsim.%d", cmd.Process.Pid)))
						}
					}
					if gotDone && !hang && err == nil {
						return
					}
					if hang {
						start = lastIdx + W - w
						continue
					}
					// worker died: attribute to lastIdx
					full := stderr.String()
					msg := head(full, 1500) + "\n…\n" + tail(full, 500)
					if lastIdx >= 0 {
						seed := core.Mix(baseSeed(), core.HashStr(prop), uint64(lastIdx))
						t := p.Gen(core.NewRng(seed), tier, lastIdx)
						if mt := core.ReadCaseMarker(markerPath(prop, w)); mt != nil {
							t = mt
						}
						t.Property, t.Seed, t.Tier = prop, seed, tier
						cls := "killed"
						if strings.Contains(full, "WARNING: DATA RACE") {
							cls = "data-race"
						} else if strings.Contains(full, "out of memory") || strings.Contains(full, "cannot allocate memory") {
							cls = "oom"
						} else if strings.Contains(full, "stack overflow") || strings.Contains(full, "goroutine stack exceeds") {
							cls = "stack-overflow"
						} else if strings.Contains(full, "fatal error") {
							cls = "fatal"
						}
						sig := prop + ".process-death|" + cls + "|" + locusFromFatal(full)
						if cls == "data-race" {
							sig = prop + ".data-race|schedule|" + locusFromFatal(raceSummary(full))
						}
						t.Signature = sig
						t.Detail = msg
						path := replayPath(prop, sig)
						_ = t.Save(path)
						mu.Lock()
						if _, ok := viols[sig]; !ok {
							viols[sig] = vrec{sig, path, "worker process died (" + cls + ") while executing run " + strconv.Itoa(lastIdx) + "\n" + head(raceSummary(full), 1500), len(t.Ops), self}
						}
						mu.Unlock()
						start = lastIdx + W - w
						continue
					}
					mu.Lock()
					infra = append(infra, fmt.Sprintf("worker %d died before its first run: %v %s", w, err, msg))
					mu.Unlock()
					return
				}
			}(w)
		}
		wg.Wait()
	}

	if len(infra) > 0 {
		for _, s := range infra {
			fmt.Println("INFRA:", s)
		}
		return exitInfra
	}

	// confirm every distinct signature in a fresh process
	known := loadFindings()
	exit := exitOK
	var sigs []string
	for s := range viols {
		sigs = append(sigs, s)
	}
	sort.Strings(sigs)
	unlisted := 0
	knownSeen := []string{}
	for _, s := range sigs {
		v := viols[s]
		var outb []byte
		var err error
		if !strings.Contains(s, ".hang|") { // (a hang is confirmed by a replay under a time limit, below)
			cmd := exec.Command(v.bin, "replay", v.replay)
			cmd.Env = append(os.Environ(), "VERIF_REPLAY_CONFIRM=1", "GORACE=halt_on_error=1 exitcode=66")
			outb, err = cmd.CombinedOutput()
		}
		outs := string(outb)
		confirmed := false
		if strings.Contains(s, ".process-death|") || strings.Contains(s, ".data-race|") {
			// the replay itself dies: confirmed if the fresh process also failed abnormally
			if ee, ok := err.(*exec.ExitError); ok && ee.ExitCode() != exitOK && ee.ExitCode() != exitViol || strings.Contains(outs, "fatal error") || strings.Contains(outs, "DATA RACE") {
				confirmed = true
			}
			// the fresh process runs with more address space than a worker: what killed the worker (an allocation of
			// gigabytes, say) may go through there and be judged by the executor instead - a violation all the same,
			// reported under the signature the replay shows
			if !confirmed && strings.Contains(s, ".process-death|") {
				if i := strings.Index(outs, "REPLAY-SIGNATURE "); i >= 0 {
					rs := outs[i+len("REPLAY-SIGNATURE "):]
					if j := strings.IndexByte(rs, '\n'); j >= 0 {
						rs = rs[:j]
					}
					if strings.HasPrefix(rs, prop+".") {
						fmt.Printf("process death of a worker replays as %s\n", rs)
						confirmed, s = true, rs
					}
				}
			}
		} else if strings.Contains(s, ".hang|") {
			confirmed = confirmHang(v.bin, v.replay)
		} else {
			confirmed = strings.Contains(outs, "REPLAY-SIGNATURE "+s+"\n")
		}
		if !confirmed && strings.Contains(s, ".hang|") {
			// a run that ran out of time in a worker but finishes when replayed alone in a fresh process was
			// slowed down by the load of the machine; a genuine hang (deadlock, endless loop) replays
			fmt.Printf("HANG-NOT-REPRODUCED property=%s signature=%q replay=%s: finished normally in a fresh process, ignored\n", prop, s, v.replay)
			continue
		}
		if !confirmed && strings.Contains(s, ".slow|") {
			// a time budget that is not exceeded again in a fresh process is not a finding (DESIGN §4 rule 5)
			fmt.Printf("TIMING-NOT-REPRODUCED property=%s signature=%q: ignored\n", prop, s)
			continue
		}
		if !confirmed {
			fmt.Printf("NONDETERMINISTIC property=%s signature=%q replay=%s did not reproduce in a fresh process\n%s\n", prop, s, v.replay, tail(outs, 1500))
			if exit == exitOK {
				exit = exitInfra
			}
			continue
		}
		listed := false
		for _, k := range known {
			if k.Status == "open" && k.Property == prop && sigMatch(k.Signature, s) {
				fmt.Printf("KNOWN-FINDING: property=%s %s [signature %s]\n", prop, k.What, s)
				knownSeen = append(knownSeen, s)
				listed = true
				break
			}
		}
		if !listed {
			unlisted++
			fmt.Printf("violation signature: %s\n  %s\n", s, firstLines(v.detail, 12))
			fmt.Printf("VIOLATION property=%s replay=%s\n", prop, v.replay)
			// a violation that reproduced in a fresh process decides the outcome, also when some other event of the
			// batch (typically the crash or hang that follows from the same defect) did not reproduce
			if exit == exitOK || exit == exitInfra {
				exit = exitViol
			}
		}
	}

	wall := time.Since(t0).Seconds()
	writeEvidence(p, tier, total, len(hashes), wall, unlisted, knownSeen, W)
	fmt.Printf("%s %s: runs=%d evaluations=%d distinct_nontrivial=%d steps=%d devops=%d wall=%.1fs violations(unlisted)=%d known=%d\n",
		prop, tier, total.Runs, total.Evals, len(hashes), total.Steps, total.DevOps, wall, unlisted, len(knownSeen))
	for _, pn := range p.ProbeNames() {
		if total.Probes[pn] == 0 {
			fmt.Printf("WARNING: probe %q stayed at 0 in this batch\n", pn)
		}
	}
	_ = maxRuns
	return exit
}

// sigMatch matches a known-finding pattern against a signature; '*' matches any run of characters.
func sigMatch(pattern, sig string) bool {
	if !strings.Contains(pattern, "*") {
		return pattern == sig
	}
	parts := strings.Split(pattern, "*")
	if !strings.HasPrefix(sig, parts[0]) {
		return false
	}
	rest := sig[len(parts[0]):]
	for i := 1; i < len(parts); i++ {
		p := parts[i]
		if i == len(parts)-1 {
			return strings.HasSuffix(rest, p)
		}
		j := strings.Index(rest, p)
		if j < 0 {
			return false
		}
		rest = rest[j+len(p):]
	}
	return true
}

func confirmHang(self, replay string) bool {
	cmd := exec.Command(self, "replay", replay)
	done := make(chan error, 1)
	if err := cmd.Start(); err != nil {
		return false
	}
	go func() { done <- cmd.Wait() }()
	select {
	case <-done:
		return false
	case <-time.After(time.Duration(envInt("VERIF_HANG_CONFIRM_SEC", 600)) * time.Second):
		_ = cmd.Process.Kill()
		return true
	}
}

// raceSummary returns the first data race report of a race-detector output.
func raceSummary(msg string) string {
	i := strings.Index(msg, "WARNING: DATA RACE")
	if i < 0 {
		return msg
	}
	m := msg[i:]
	if j := strings.Index(m, "=================="); j > 0 {
		m = m[:j]
	}
	return m
}

func locusFromFatal(msg string) string {
	for _, ln := range strings.Split(msg, "\n") {
		ln = strings.TrimSpace(ln)
		if strings.HasPrefix(ln, "github.com/diskfs/go-diskfs") && !strings.Contains(ln, ".dsimLock") && !strings.Contains(ln, ".dsimUnlock") {
			if i := strings.LastIndex(ln, "("); i > 0 {
				ln = ln[:i]
			}
			ln = strings.TrimPrefix(ln, "github.com/diskfs/go-diskfs/")
			return ln
		}
	}
	return "unknown"
}

func head(s string, n int) string {
	if len(s) > n {
		return s[:n]
	}
	return s
}

func tail(s string, n int) string {
	if len(s) > n {
		return s[len(s)-n:]
	}
	return s
}

func firstLines(s string, n int) string {
	l := strings.Split(s, "\n")
	if len(l) > n {
		l = l[:n]
	}
	return strings.Join(l, "\n  ")
}

func writeEvidence(p core.Property, tier string, tot wmsg, distinct int, wall float64, unlisted int, knownSeen []string, W int) {
	perHour := 0.0
	if wall > 0 {
		perHour = float64(tot.Runs) / wall * 3600
	}
	samples := []any{}
	for _, s := range tot.Samples {
		samples = append(samples, s)
	}
	if len(samples) == 0 {
		samples = append(samples, "no violation-free sample recorded in this batch")
	}
	zero := []string{}
	for _, pn := range p.ProbeNames() {
		if tot.Probes[pn] == 0 {
			zero = append(zero, pn)
		}
	}
	simtime := any("not applicable: the code under test has no timers; step measure is simulated device operations")
	if tot.SimTime > 0 {
		simtime = tot.SimTime
	}
	ev := map[string]any{
		"property_id": p.ID(),
		"tier":        tier,
		"seed":        int64(baseSeed() & 0x7fffffffffffffff),
		"level":       p.Level(),
		"coverage": map[string]any{
			"evaluations":                tot.Evals,
			"distinct_nontrivial":        distinct,
			"rule":                       p.Rule(),
			"samples":                    samples,
			"simulated_runs":             tot.Runs,
			"runs_per_hour":              perHour,
			"seeds_per_hour":             perHour,
			"harness_operations":         tot.Steps,
			"simulated_device_ops":       tot.DevOps,
			"simulated_time_s":           simtime,
			"faults_fired":               tot.Faults,
			"probes_hit":                 tot.Probes,
			"probes_stuck_at_zero":       zero,
			"components":                 p.Components(),
			"worker_processes":           W,
			"shrink_executions":          tot.Shrinks,
			"violation_signature_counts": tot.SigCnt,
			"known_findings_seen":        knownSeen,
			"exhaustive":                 false,
		},
		"assumptions": p.Assumptions(),
		"wall_s":      wall,
		"violations":  unlisted,
	}
	b, _ := json.MarshalIndent(ev, "", " ")
	_ = os.WriteFile(filepath.Join(outDir(), "evidence", p.ID()+".json"), append(b, '\n'), 0o644)
}
