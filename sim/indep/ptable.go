// Package indep holds readers written from the format specifications that share no code
// with go-diskfs; they are the second opinion on the bytes the library produces.
package indep

import (
	"encoding/binary"
	"fmt"
	"hash/crc32"
	"strings"
	"unicode/utf16"
)

// ReaderAt is the minimal device view.
type Dev interface {
	Peek(off, n int64) []byte
	Size() int64
}

type GPTEntry struct {
	Index      int
	TypeGUID   string // canonical upper-case text form
	GUID       string
	First      uint64
	Last       uint64
	Attributes uint64
	NameUnits  []uint16
}

func (e GPTEntry) Name() string { return string(utf16.Decode(e.NameUnits)) }

type GPTHeader struct {
	MyLBA, AltLBA           uint64
	FirstUsable, LastUsable uint64
	DiskGUID                string
	ArrayLBA                uint64
	Count, EntrySize        uint32
	ArrayCRC                uint32
	HeaderCRC               uint32
	HeaderSize              uint32
}

// guidText renders a GPT mixed-endian GUID.
func guidText(b []byte) string {
	return strings.ToUpper(fmt.Sprintf("%08x-%04x-%04x-%04x-%012x",
		binary.LittleEndian.Uint32(b[0:4]),
		binary.LittleEndian.Uint16(b[4:6]),
		binary.LittleEndian.Uint16(b[6:8]),
		binary.BigEndian.Uint16(b[8:10]),
		b[10:16]))
}

// ParseGPTHeader validates signature, revision, size and header CRC of the sector at lba.
func ParseGPTHeader(d Dev, lss int64, lba uint64) (*GPTHeader, error) {
	off := int64(lba) * lss
	if off < 0 || off+lss > d.Size() {
		return nil, fmt.Errorf("header LBA %d outside device", lba)
	}
	b := d.Peek(off, lss)
	if string(b[0:8]) != "EFI PART" {
		return nil, fmt.Errorf("bad signature at LBA %d", lba)
	}
	if binary.LittleEndian.Uint32(b[8:12]) != 0x00010000 {
		return nil, fmt.Errorf("bad revision")
	}
	hs := binary.LittleEndian.Uint32(b[12:16])
	if hs < 92 || int64(hs) > lss {
		return nil, fmt.Errorf("bad header size %d", hs)
	}
	h := &GPTHeader{HeaderSize: hs}
	h.HeaderCRC = binary.LittleEndian.Uint32(b[16:20])
	c := append([]byte(nil), b[:hs]...)
	c[16], c[17], c[18], c[19] = 0, 0, 0, 0
	if crc32.ChecksumIEEE(c) != h.HeaderCRC {
		return nil, fmt.Errorf("header CRC mismatch at LBA %d", lba)
	}
	h.MyLBA = binary.LittleEndian.Uint64(b[24:32])
	h.AltLBA = binary.LittleEndian.Uint64(b[32:40])
	h.FirstUsable = binary.LittleEndian.Uint64(b[40:48])
	h.LastUsable = binary.LittleEndian.Uint64(b[48:56])
	h.DiskGUID = guidText(b[56:72])
	h.ArrayLBA = binary.LittleEndian.Uint64(b[72:80])
	h.Count = binary.LittleEndian.Uint32(b[80:84])
	h.EntrySize = binary.LittleEndian.Uint32(b[84:88])
	h.ArrayCRC = binary.LittleEndian.Uint32(b[88:92])
	if h.MyLBA != lba {
		return nil, fmt.Errorf("header at LBA %d says MyLBA=%d", lba, h.MyLBA)
	}
	for _, x := range b[hs:] {
		if x != 0 {
			return nil, fmt.Errorf("non-zero reserved bytes after the header at LBA %d", lba)
		}
	}
	return h, nil
}

// ParseGPTArray reads and CRC-checks the entry array of h.
func ParseGPTArray(d Dev, lss int64, h *GPTHeader) ([]GPTEntry, error) {
	if h.EntrySize < 128 || h.EntrySize%128 != 0 || h.EntrySize > 4096 {
		return nil, fmt.Errorf("bad entry size %d", h.EntrySize)
	}
	if h.Count > 1024 {
		return nil, fmt.Errorf("implausible entry count %d", h.Count)
	}
	n := int64(h.Count) * int64(h.EntrySize)
	off := int64(h.ArrayLBA) * lss
	if off < 0 || off+n > d.Size() {
		return nil, fmt.Errorf("entry array outside device")
	}
	b := d.Peek(off, n)
	if crc32.ChecksumIEEE(b) != h.ArrayCRC {
		return nil, fmt.Errorf("entry array CRC mismatch")
	}
	var out []GPTEntry
	for i := 0; i < int(h.Count); i++ {
		e := b[i*int(h.EntrySize) : (i+1)*int(h.EntrySize)]
		allz := true
		for _, x := range e[:16] {
			if x != 0 {
				allz = false
			}
		}
		if allz {
			continue
		}
		ge := GPTEntry{Index: i + 1, TypeGUID: guidText(e[0:16]), GUID: guidText(e[16:32]),
			First: binary.LittleEndian.Uint64(e[32:40]), Last: binary.LittleEndian.Uint64(e[40:48]),
			Attributes: binary.LittleEndian.Uint64(e[48:56])}
		for j := 56; j+2 <= 128; j += 2 {
			u := binary.LittleEndian.Uint16(e[j:])
			if u == 0 {
				break
			}
			ge.NameUnits = append(ge.NameUnits, u)
		}
		out = append(out, ge)
	}
	return out, nil
}

// GPTView is what an independent, spec-following reader sees on a disk.
type GPTView struct {
	Primary, Backup       *GPTHeader
	PrimaryErr, BackupErr error
	PrimaryEntries        []GPTEntry
	BackupEntries         []GPTEntry
	ProtectiveOK          bool
	ProtectiveSectors     uint32
	ProtectiveErr         string
}

// ReadGPT parses both copies.
func ReadGPT(d Dev, lss int64) *GPTView {
	v := &GPTView{}
	if h, err := ParseGPTHeader(d, lss, 1); err != nil {
		v.PrimaryErr = err
	} else if es, err := ParseGPTArray(d, lss, h); err != nil {
		v.PrimaryErr = err
	} else {
		v.Primary, v.PrimaryEntries = h, es
	}
	last := uint64(d.Size()/lss) - 1
	if h, err := ParseGPTHeader(d, lss, last); err != nil {
		v.BackupErr = err
	} else if es, err := ParseGPTArray(d, lss, h); err != nil {
		v.BackupErr = err
	} else {
		v.Backup, v.BackupEntries = h, es
	}
	m := d.Peek(0, 512)
	v.ProtectiveOK = true
	if m[510] != 0x55 || m[511] != 0xaa {
		v.ProtectiveOK = false
		v.ProtectiveErr = "no 55AA signature"
	} else {
		e := m[446:462]
		if e[4] != 0xEE {
			v.ProtectiveOK = false
			v.ProtectiveErr = fmt.Sprintf("slot 0 type %#x", e[4])
		}
		if binary.LittleEndian.Uint32(e[8:12]) != 1 {
			v.ProtectiveOK = false
			v.ProtectiveErr = "protective partition does not start at LBA 1"
		}
		v.ProtectiveSectors = binary.LittleEndian.Uint32(e[12:16])
		for i := 462; i < 510; i++ {
			if m[i] != 0 {
				v.ProtectiveOK = false
				v.ProtectiveErr = "other MBR slots not empty"
			}
		}
	}
	return v
}

// GPTExtents returns the byte extents a GPT writer may touch on a disk of the given geometry
// (protective MBR entry area + signature, both headers, both 128x128 arrays).
func GPTExtents(diskSize, lss int64) [][2]int64 {
	sectors := diskSize / lss
	arr := (int64(128*128) + lss - 1) / lss
	return [][2]int64{
		{446, 66},
		{lss, lss},
		{2 * lss, arr * lss},
		{(sectors - 1 - arr) * lss, arr * lss},
		{(sectors - 1) * lss, lss},
	}
}

type MBREntry struct {
	Index    int
	Bootable byte
	Type     byte
	Start    uint32
	Sectors  uint32
	CHS      [6]byte
}

// ReadMBR parses the four slots; error if the signature is missing.
func ReadMBR(d Dev) ([]MBREntry, error) {
	m := d.Peek(0, 512)
	if m[510] != 0x55 || m[511] != 0xaa {
		return nil, fmt.Errorf("no 55AA signature")
	}
	var out []MBREntry
	for i := 0; i < 4; i++ {
		e := m[446+16*i : 462+16*i]
		out = append(out, MBREntry{Index: i + 1, Bootable: e[0], Type: e[4],
			Start: binary.LittleEndian.Uint32(e[8:12]), Sectors: binary.LittleEndian.Uint32(e[12:16]),
			CHS: [6]byte{e[1], e[2], e[3], e[5], e[6], e[7]}})
	}
	return out, nil
}

// GPTCopyCRCValid checks only what the words "CRC-valid" mean: the header at lba carries a
// correct CRC over its stated header size and its entry array (count*entrySize bytes at the
// stated LBA, inside the device) matches the array CRC. It returns the entries decoded with a
// 128-byte layout at the stated stride. No plausibility limits beyond the device bounds.
func GPTCopyCRCValid(d Dev, lss int64, lba uint64) ([]GPTEntry, *GPTHeader, bool) {
	off := int64(lba) * lss
	if lba > 1<<62/uint64(lss) || off < 0 || off+lss > d.Size() {
		return nil, nil, false
	}
	b := d.Peek(off, lss)
	if string(b[0:8]) != "EFI PART" {
		return nil, nil, false
	}
	hs := binary.LittleEndian.Uint32(b[12:16])
	if hs < 92 || int64(hs) > lss {
		return nil, nil, false
	}
	c := append([]byte(nil), b[:hs]...)
	c[16], c[17], c[18], c[19] = 0, 0, 0, 0
	if crc32.ChecksumIEEE(c) != binary.LittleEndian.Uint32(b[16:20]) {
		return nil, nil, false
	}
	h := &GPTHeader{HeaderSize: hs}
	h.MyLBA = binary.LittleEndian.Uint64(b[24:32])
	h.AltLBA = binary.LittleEndian.Uint64(b[32:40])
	h.FirstUsable = binary.LittleEndian.Uint64(b[40:48])
	h.LastUsable = binary.LittleEndian.Uint64(b[48:56])
	h.DiskGUID = guidText(b[56:72])
	h.ArrayLBA = binary.LittleEndian.Uint64(b[72:80])
	h.Count = binary.LittleEndian.Uint32(b[80:84])
	h.EntrySize = binary.LittleEndian.Uint32(b[84:88])
	h.ArrayCRC = binary.LittleEndian.Uint32(b[88:92])
	n := int64(h.Count) * int64(h.EntrySize)
	if h.ArrayLBA > uint64(d.Size()/lss) {
		return nil, h, false
	}
	aoff := int64(h.ArrayLBA) * lss
	if n < 0 || aoff < 0 || aoff+n > d.Size() || n > 1<<30 {
		return nil, h, false
	}
	ab := d.Peek(aoff, n)
	if crc32.ChecksumIEEE(ab) != h.ArrayCRC {
		return nil, h, false
	}
	var out []GPTEntry
	if h.EntrySize < 128 {
		return nil, h, true
	}
	for i := 0; i < int(h.Count); i++ {
		e := ab[i*int(h.EntrySize) : i*int(h.EntrySize)+128]
		allz := true
		for _, x := range e[:16] {
			if x != 0 {
				allz = false
			}
		}
		if allz {
			continue
		}
		ge := GPTEntry{Index: i + 1, TypeGUID: guidText(e[0:16]), GUID: guidText(e[16:32]),
			First: binary.LittleEndian.Uint64(e[32:40]), Last: binary.LittleEndian.Uint64(e[40:48]),
			Attributes: binary.LittleEndian.Uint64(e[48:56])}
		for j := 56; j+2 <= 128; j += 2 {
			u := binary.LittleEndian.Uint16(e[j:])
			if u == 0 {
				break
			}
			ge.NameUnits = append(ge.NameUnits, u)
		}
		out = append(out, ge)
	}
	return out, h, true
}

// FixGPTHeaderCRC recomputes the header CRC of the header at lba (harness use: corruptions "with CRC fixed").
func FixGPTHeaderCRC(peek func(off, n int64) []byte, poke func(off int64, b []byte), lss int64, lba int64) {
	b := peek(lba*lss, 92)
	b[16], b[17], b[18], b[19] = 0, 0, 0, 0
	var c [4]byte
	binary.LittleEndian.PutUint32(c[:], crc32.ChecksumIEEE(b))
	poke(lba*lss+16, c[:])
}

// FixGPTArrayCRC recomputes the array CRC field of the header at lba from the array it points to (bounded).
func FixGPTArrayCRC(peek func(off, n int64) []byte, poke func(off int64, b []byte), devSize, lss int64, lba int64) {
	b := peek(lba*lss, 92)
	alba := int64(binary.LittleEndian.Uint64(b[72:80]))
	n := int64(binary.LittleEndian.Uint32(b[80:84])) * int64(binary.LittleEndian.Uint32(b[84:88]))
	if alba < 0 || alba > devSize/lss || n < 0 || n > 1<<24 || alba*lss+n > devSize {
		return
	}
	var c [4]byte
	binary.LittleEndian.PutUint32(c[:], crc32.ChecksumIEEE(peek(alba*lss, n)))
	poke(lba*lss+88, c[:])
}
