package indep

import (
	"encoding/binary"
	"fmt"
)

// ISOFile is one file found by walking the primary volume descriptor's directory tree.
type ISOFile struct {
	Idents []string // ISO identifiers from the root down (as recorded, incl. ";1")
	Dir    bool
	LBA    int64
	Size   int64
}

type ISOView struct {
	BlockSize   int64
	VolumeSpace int64 // blocks
	VolumeID    string
	Files       []ISOFile
	Problems    []string
}

// ReadISO walks the primary volume descriptor tree of the ISO9660 image at [start, ...).
func ReadISO(d Dev, start int64) *ISOView {
	v := &ISOView{}
	var pvd []byte
	for _, vdStart := range []int64{32768, 65536, 131072} {
		if start+vdStart+2048 > d.Size() {
			break
		}
		b := d.Peek(start+vdStart, 2048)
		if b[0] == 1 && string(b[1:6]) == "CD001" {
			pvd = b
			break
		}
	}
	if pvd == nil {
		v.Problems = append(v.Problems, "no primary volume descriptor at sector 16")
		return v
	}
	v.BlockSize = int64(binary.LittleEndian.Uint16(pvd[128:130]))
	if int64(binary.BigEndian.Uint16(pvd[130:132])) != v.BlockSize {
		v.Problems = append(v.Problems, "logical block size differs between its little- and big-endian copies")
	}
	v.VolumeSpace = int64(binary.LittleEndian.Uint32(pvd[80:84]))
	if int64(binary.BigEndian.Uint32(pvd[84:88])) != v.VolumeSpace {
		v.Problems = append(v.Problems, "volume space size differs between its little- and big-endian copies")
	}
	id := pvd[40:72]
	for len(id) > 0 && (id[len(id)-1] == ' ' || id[len(id)-1] == 0) {
		id = id[:len(id)-1]
	}
	v.VolumeID = string(id)
	if v.BlockSize < 512 {
		v.Problems = append(v.Problems, fmt.Sprintf("block size %d", v.BlockSize))
		return v
	}
	root := pvd[156:190]
	var walk func(lba, size int64, idents []string, depth int)
	seenDir := map[int64]bool{}
	walk = func(lba, size int64, idents []string, depth int) {
		if depth > 40 || seenDir[lba] {
			v.Problems = append(v.Problems, fmt.Sprintf("directory loop or excessive depth at block %d", lba))
			return
		}
		seenDir[lba] = true
		if size <= 0 || size > 64<<20 || start+lba*v.BlockSize+size > d.Size() {
			v.Problems = append(v.Problems, fmt.Sprintf("directory extent (block %d, %d bytes) outside the device", lba, size))
			return
		}
		b := d.Peek(start+lba*v.BlockSize, size)
		for i := int64(0); i < size; {
			rl := int64(b[i])
			if rl == 0 {
				// records do not span sectors: skip to the next block
				i = (i/v.BlockSize + 1) * v.BlockSize
				continue
			}
			if rl < 34 || i+rl > size {
				v.Problems = append(v.Problems, fmt.Sprintf("directory record of length %d at byte %d of the directory at block %d", rl, i, lba))
				return
			}
			r := b[i : i+rl]
			nl := int64(r[32])
			if 33+nl > rl {
				v.Problems = append(v.Problems, "identifier longer than its record")
				return
			}
			ident := string(r[33 : 33+nl])
			elba := int64(binary.LittleEndian.Uint32(r[2:6]))
			esz := int64(binary.LittleEndian.Uint32(r[10:14]))
			if int64(binary.BigEndian.Uint32(r[6:10])) != elba || int64(binary.BigEndian.Uint32(r[14:18])) != esz {
				v.Problems = append(v.Problems, fmt.Sprintf("record %q: both-endian fields disagree", ident))
			}
			isDir := r[25]&0x02 != 0
			if !(nl == 1 && (r[33] == 0 || r[33] == 1)) {
				ids := append(append([]string(nil), idents...), ident)
				v.Files = append(v.Files, ISOFile{Idents: ids, Dir: isDir, LBA: elba, Size: esz})
				if isDir {
					walk(elba, esz, ids, depth+1)
				}
			}
			i += rl
		}
	}
	walk(int64(binary.LittleEndian.Uint32(root[2:6])), int64(binary.LittleEndian.Uint32(root[10:14])), nil, 0)
	return v
}
