package indep

import (
	"encoding/binary"
	"fmt"
)

// FATProblem is one structural complaint of the independent FAT reader.
type FATProblem struct {
	Class  string // short stable class, used in signatures
	Detail string
}

// FATReport is the result of checking one volume.
type FATReport struct {
	Type         int // 12, 16, 32
	BytesPerSec  int64
	ClusterBytes int64
	Clusters     int64 // number of data clusters (valid indices 2..Clusters+1)
	DataStart    int64 // byte offset of cluster 2 relative to the volume start
	FATStart     int64
	FATBytes     int64
	RootDirOff   int64
	RootDirBytes int64
	UsedClusters int64
	Files, Dirs  int
	Problems     []FATProblem
	MetaExtents  [][2]int64 // absolute extents of metadata (boot area, FATs, directories) for fault placement
}

func (r *FATReport) add(class, f string, a ...any) {
	if len(r.Problems) < 20 {
		r.Problems = append(r.Problems, FATProblem{class, fmt.Sprintf(f, a...)})
	}
}

// CheckFAT reads the FAT volume that was given the byte range [start, start+size) of d.
// wantType is 12, 16 or 32 (how the creator typed it).
func CheckFAT(d Dev, start, size int64, wantType int) *FATReport {
	r := &FATReport{Type: wantType}
	if start+512 > d.Size() {
		r.add("boot-unreadable", "volume start beyond device")
		return r
	}
	bs := d.Peek(start, 512)
	if bs[510] != 0x55 || bs[511] != 0xAA {
		r.add("boot-signature", "boot sector lacks 55AA")
		return r
	}
	bps := int64(binary.LittleEndian.Uint16(bs[11:13]))
	spc := int64(bs[13])
	reserved := int64(binary.LittleEndian.Uint16(bs[14:16]))
	nfats := int64(bs[16])
	rootEnt := int64(binary.LittleEndian.Uint16(bs[17:19]))
	tot16 := int64(binary.LittleEndian.Uint16(bs[19:21]))
	fatsz16 := int64(binary.LittleEndian.Uint16(bs[22:24]))
	tot32 := int64(binary.LittleEndian.Uint32(bs[32:36]))
	if bps != 512 && bps != 1024 && bps != 2048 && bps != 4096 {
		r.add("bpb-geometry", "bytes per sector %d", bps)
		return r
	}
	if spc == 0 || spc&(spc-1) != 0 {
		r.add("bpb-geometry", "sectors per cluster %d", spc)
		return r
	}
	if nfats != 2 {
		r.add("bpb-geometry", "number of FATs %d", nfats)
		return r
	}
	tot := tot16
	if tot == 0 {
		tot = tot32
	}
	fatsz := fatsz16
	var rootClus int64
	if wantType == 32 {
		if rootEnt != 0 || fatsz16 != 0 {
			r.add("bpb-geometry", "FAT32 volume with rootEntCnt=%d FATSz16=%d", rootEnt, fatsz16)
		}
		fatsz = int64(binary.LittleEndian.Uint32(bs[36:40]))
		rootClus = int64(binary.LittleEndian.Uint32(bs[44:48]))
	} else if rootEnt == 0 {
		r.add("bpb-geometry", "FAT12/16 volume with zero root entries")
		return r
	}
	r.BytesPerSec = bps
	r.ClusterBytes = bps * spc
	if tot != size/bps {
		r.add("bpb-geometry", "total sectors %d does not match the range given (%d bytes = %d sectors of %d)", tot, size, size/bps, bps)
	}
	rootSecs := (rootEnt*32 + bps - 1) / bps
	dataSec := tot - reserved - nfats*fatsz - rootSecs
	if dataSec <= 0 || fatsz <= 0 {
		r.add("bpb-geometry", "no data area (tot=%d reserved=%d fatsz=%d root=%d)", tot, reserved, fatsz, rootSecs)
		return r
	}
	r.Clusters = dataSec / spc
	r.FATStart = reserved * bps
	r.FATBytes = fatsz * bps
	r.RootDirOff = (reserved + nfats*fatsz) * bps
	r.RootDirBytes = rootSecs * bps
	r.DataStart = r.RootDirOff + r.RootDirBytes
	if r.DataStart+r.Clusters*r.ClusterBytes > size {
		r.add("bpb-geometry", "data area [%d,+%d clusters) exceeds the %d-byte range", r.DataStart, r.Clusters, size)
	}
	// whether the table of a volume with the FAT12/16 layout of the boot sector has 12-bit or 16-bit entries is
	// a function of its count of clusters and of nothing else (Microsoft FAT specification, "FAT type
	// determination"): a reader has no other way to tell, whatever the creator meant. (FAT32 is recognisable by
	// its boot sector - no root entries, no 16-bit FAT size - and common readers go by that, so small FAT32
	// volumes are not judged here.)
	specType := wantType
	if wantType != 32 {
		specType = 16
		if r.Clusters < 4085 {
			specType = 12
		}
	}
	if specType != wantType {
		r.add("bpb-fat-type", "a volume of %d clusters is FAT%d for every reader, it was made as FAT%d", r.Clusters, specType, wantType)
	}
	// entries must fit the FAT
	var entBits int64 = 12
	switch wantType {
	case 16:
		entBits = 16
	case 32:
		entBits = 32
	}
	fatEntries := r.FATBytes * 8 / entBits
	if fatEntries < r.Clusters+2 {
		r.add("bpb-geometry", "FAT of %d bytes holds %d entries, fewer than %d clusters + 2", r.FATBytes, fatEntries, r.Clusters)
	}
	if start+r.DataStart > d.Size() {
		r.add("boot-unreadable", "metadata beyond device")
		return r
	}
	r.MetaExtents = append(r.MetaExtents, [2]int64{start, reserved * bps}, [2]int64{start + r.FATStart, 2 * r.FATBytes})
	if r.RootDirBytes > 0 {
		r.MetaExtents = append(r.MetaExtents, [2]int64{start + r.RootDirOff, r.RootDirBytes})
	}

	if wantType == 32 {
		bk := int64(binary.LittleEndian.Uint16(bs[50:52]))
		fsi := int64(binary.LittleEndian.Uint16(bs[48:50]))
		if bk == 0 || bk >= reserved {
			r.add("fat32-backup-boot", "backup boot sector field %d (reserved %d)", bk, reserved)
		} else {
			a, b := d.Peek(start, bps), d.Peek(start+bk*bps, bps)
			for i := range a {
				if a[i] != b[i] {
					r.add("fat32-backup-boot", "backup boot sector differs from the boot sector at byte %d", i)
					break
				}
			}
		}
		if fsi == 0 || fsi >= reserved {
			r.add("fat32-fsinfo", "FSInfo sector field %d", fsi)
		} else {
			f := d.Peek(start+fsi*bps, 512)
			if binary.LittleEndian.Uint32(f[0:4]) != 0x41615252 || binary.LittleEndian.Uint32(f[484:488]) != 0x61417272 || binary.LittleEndian.Uint32(f[508:512]) != 0xAA550000 {
				r.add("fat32-fsinfo", "FSInfo signatures wrong")
			}
		}
	}

	// FAT copies
	if r.FATBytes > 64<<20 {
		r.add("bpb-geometry", "FAT too large to check (%d bytes)", r.FATBytes)
		return r
	}
	f1 := d.Peek(start+r.FATStart, r.FATBytes)
	f2 := d.Peek(start+r.FATStart+r.FATBytes, r.FATBytes)
	for i := range f1 {
		if f1[i] != f2[i] {
			r.add("fat-copies-differ", "FAT copies differ at byte %d", i)
			break
		}
	}
	ent := func(i int64) uint32 {
		switch wantType {
		case 12:
			o := i * 3 / 2
			if o+1 >= int64(len(f1)) {
				return 0
			}
			w := uint32(f1[o]) | uint32(f1[o+1])<<8
			if i%2 == 0 {
				return w & 0xFFF
			}
			return w >> 4
		case 16:
			if i*2+2 > int64(len(f1)) {
				return 0
			}
			return uint32(binary.LittleEndian.Uint16(f1[i*2:]))
		default:
			if i*4+4 > int64(len(f1)) {
				return 0
			}
			return binary.LittleEndian.Uint32(f1[i*4:]) & 0x0FFFFFFF
		}
	}
	var eocMin, bad uint32
	switch wantType {
	case 12:
		eocMin, bad = 0xFF8, 0xFF7
	case 16:
		eocMin, bad = 0xFFF8, 0xFFF7
	default:
		eocMin, bad = 0x0FFFFFF8, 0x0FFFFFF7
	}
	maxValid := r.Clusters + 1
	owner := map[int64]string{}
	// walkChain returns the clusters of the chain starting at first.
	walkChain := func(first int64, who string, needBytes int64) []int64 {
		var chain []int64
		if first == 0 {
			if needBytes > 0 {
				r.add("chain-too-short", "%s: size %d but no first cluster", who, needBytes)
			}
			return nil
		}
		c := first
		for {
			if c < 2 || c > maxValid {
				r.add("chain-out-of-range", "%s: cluster %d outside [2,%d]", who, c, maxValid)
				return chain
			}
			if o, ok := owner[c]; ok {
				if o == who {
					r.add("chain-loop", "%s: chain loops at cluster %d", who, c)
				} else {
					r.add("cross-linked", "cluster %d belongs to %s and %s", c, o, who)
				}
				return chain
			}
			owner[c] = who
			chain = append(chain, c)
			v := ent(c)
			if v >= eocMin {
				break
			}
			if v == 0 {
				r.add("chain-not-terminated", "%s: chain reaches free cluster entry at %d", who, c)
				break
			}
			if v == bad {
				r.add("chain-not-terminated", "%s: chain reaches bad-cluster mark at %d", who, c)
				break
			}
			c = int64(v)
		}
		if need := (needBytes + r.ClusterBytes - 1) / r.ClusterBytes; int64(len(chain)) < need {
			r.add("chain-too-short", "%s: %d clusters for %d bytes (needs %d)", who, len(chain), needBytes, need)
		}
		return chain
	}
	readChain := func(chain []int64) []byte {
		var b []byte
		for _, c := range chain {
			off := start + r.DataStart + (c-2)*r.ClusterBytes
			r.MetaExtents = append(r.MetaExtents, [2]int64{off, r.ClusterBytes})
			b = append(b, d.Peek(off, r.ClusterBytes)...)
		}
		return b
	}
	var walkDir func(b []byte, path string, depth int)
	walkDir = func(b []byte, path string, depth int) {
		if depth > 40 {
			r.add("dir-too-deep", "%s", path)
			return
		}
		for i := 0; i+32 <= len(b); i += 32 {
			e := b[i : i+32]
			if e[0] == 0 {
				break
			}
			if e[0] == 0xE5 || e[11] == 0x0F || e[11]&0x08 != 0 {
				continue
			}
			name := fmt.Sprintf("%s/%s", path, trimName(e[0:8], e[8:11]))
			if e[0] == '.' {
				continue // "." and ".." alias their owners
			}
			first := int64(binary.LittleEndian.Uint16(e[26:28]))
			if wantType == 32 {
				first |= int64(binary.LittleEndian.Uint16(e[20:22])) << 16
			}
			sz := int64(binary.LittleEndian.Uint32(e[28:32]))
			if e[11]&0x10 != 0 {
				r.Dirs++
				ch := walkChain(first, name, 1)
				if len(ch) > 0 && len(ch) < 4096 {
					walkDir(readChain(ch), name, depth+1)
				}
			} else {
				r.Files++
				walkChain(first, name, sz)
			}
		}
	}
	if wantType == 32 {
		ch := walkChain(rootClus, "<root>", 1)
		if len(ch) < 4096 {
			walkDir(readChain(ch), "", 0)
		}
	} else {
		walkDir(d.Peek(start+r.RootDirOff, r.RootDirBytes), "", 0)
	}
	// lost clusters and slack entries
	for c := int64(2); c < fatEntries; c++ {
		v := ent(c)
		if v == 0 || v == bad {
			continue
		}
		if c > maxValid {
			r.add("fat-entry-beyond-data", "FAT entry %d (beyond the last cluster %d) is marked %#x", c, maxValid, v)
			break
		}
		r.UsedClusters++
		if _, ok := owner[c]; !ok {
			r.add("lost-cluster", "cluster %d is marked used (%#x) but no file or directory owns it", c, v)
			break
		}
	}
	if wantType == 32 {
		fsi := int64(binary.LittleEndian.Uint16(bs[48:50]))
		if fsi > 0 && fsi < reserved {
			f := d.Peek(start+fsi*bps, 512)
			free := int64(binary.LittleEndian.Uint32(f[488:492]))
			next := int64(binary.LittleEndian.Uint32(f[492:496]))
			if free != 0xFFFFFFFF && free != r.Clusters-r.UsedClusters {
				r.add("fat32-fsinfo", "FSInfo free count %d, actual %d", free, r.Clusters-r.UsedClusters)
			}
			if next != 0xFFFFFFFF && (next < 2 || next > maxValid) {
				r.add("fat32-fsinfo", "FSInfo next-free hint %d outside [2,%d]", next, maxValid)
			}
		}
	}
	return r
}

func trimName(n, e []byte) string {
	s := string(n)
	for len(s) > 0 && s[len(s)-1] == ' ' {
		s = s[:len(s)-1]
	}
	x := string(e)
	for len(x) > 0 && x[len(x)-1] == ' ' {
		x = x[:len(x)-1]
	}
	if x != "" {
		return s + "." + x
	}
	return s
}
