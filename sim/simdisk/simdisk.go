// Package simdisk is the simulated block device every check runs go-diskfs on.
//
// A Disk is a sparse page map (absent page = zeros) that implements
// backend.Storage, backend.WritableFile, io.Seeker and Sync(). It records an
// event log, enforces a write-range guard, accounts reads, can be cloned in
// O(pages) (copy on write) and, in crash-recording mode, keeps the data of every
// write so that crash images (durable image + any subset of the sectors of the
// un-synced writes) can be built afterwards.
package simdisk

import (
	"crypto/sha256"
	"encoding/binary"
	"errors"
	"fmt"
	"io"
	"io/fs"
	"os"
	"runtime"
	"sort"
	"strings"
	"sync"
	"syscall"
	"time"

	"github.com/diskfs/go-diskfs/backend"
)

const PageSize = 4096

// ErrNoSpace is returned by writes that reach beyond the end of a non-growing device.
var ErrNoSpace = errors.New("simdisk: write beyond end of device")

// ErrReadBudget is the panic value raised by ReadAt when ReadBudget is exceeded.
var ErrReadBudget = errors.New("simdisk: device read budget exceeded")

type page struct {
	data  [PageSize]byte
	epoch *int // owner token; a page may be written in place only by the disk holding the same token
}

// Extent is a half-open byte range [Off, Off+Len).
type Extent struct{ Off, Len int64 }

func (e Extent) End() int64 { return e.Off + e.Len }

// EventKind enumerates what the device saw.
type EventKind uint8

const (
	EvRead EventKind = iota
	EvWrite
	EvSync
	EvWritable
)

func (k EventKind) String() string {
	switch k {
	case EvRead:
		return "R"
	case EvWrite:
		return "W"
	case EvSync:
		return "S"
	case EvWritable:
		return "OpenW"
	}
	return "?"
}

// Event is one device operation.
type Event struct {
	Seq  uint64
	Kind EventKind
	Off  int64
	Len  int64
	Data []byte // only in crash-recording mode, for writes
}

// GuardViolation describes a write that touched bytes outside the allowed extents.
type GuardViolation struct {
	Off, Len int64
	Locus    string
}

// Stats is the read/write accounting of a disk.
type Stats struct {
	Reads, Writes, Syncs int64
	BytesRead            int64
	BytesWritten         int64
	MaxReadReq           int64
	WritableCalls        int64
}

// Disk is the simulated device.
type Disk struct {
	size     int64
	pages    map[int64]*page
	epoch    *int
	pos      int64 // cursor for Read/Seek
	ReadOnly bool  // Writable() refuses
	closed   bool

	// NoStats disables read accounting so that concurrent ReadAt calls from several goroutines
	// of the code under test touch no shared harness state (C17, race builds).
	NoStats bool

	// Locked serialises device calls with a mutex (only for code under test that uses the
	// device from two goroutines of its own, e.g. sync.CopyPartitionRaw).
	Locked bool
	mu     sync.Mutex

	// Hooks.
	// Yield, when set, is called before and after every ReadAt, before every Read and after every Seek
	// (scheduler pre-emption points).
	Yield func(point string)

	// event log
	LogEvents  bool
	RecordData bool // keep write payloads (crash mode)
	Events     []Event
	seq        uint64

	// guard
	guardOn  bool
	allowed  []Extent
	GuardHit *GuardViolation // first violation

	// Grow makes the device behave like a regular file that grows on writes past its end;
	// otherwise such a write is cut short with ErrNoSpace and recorded in BeyondEnd.
	Grow      bool
	BeyondEnd *GuardViolation

	// budgets
	MaxReadAllowed int64 // if >0, a read request larger than this is flagged
	OversizeRead   int64 // largest flagged request
	OversizeLocus  string

	// ReadBudget, if >0, makes ReadAt panic with ErrReadBudget once more than that many reads were
	// issued since St was reset: the way out of an endless loop that keeps reading the device.
	ReadBudget int64

	// truncated view: reads at or beyond this offset hit EOF (0 = off)
	TruncAt int64

	St Stats
}

// New returns a zero-filled sparse disk of the given size.
func New(size int64) *Disk {
	e := 0
	return &Disk{size: size, pages: map[int64]*page{}, epoch: &e}
}

func (d *Disk) Size() int64 { return d.size }

// SetSize changes the device size (no data is discarded).
func (d *Disk) SetSize(n int64) { d.size = n }

// Clone returns an independent copy sharing pages copy-on-write. Hooks, log and guard are not copied.
func (d *Disk) Clone() *Disk {
	e1, e2 := 0, 0
	n := &Disk{size: d.size, pages: make(map[int64]*page, len(d.pages)), epoch: &e1}
	for k, v := range d.pages {
		n.pages[k] = v
	}
	d.epoch = &e2 // the original no longer owns its pages either
	return n
}

func (d *Disk) pageForWrite(idx int64) *page {
	p := d.pages[idx]
	if p == nil {
		p = &page{epoch: d.epoch}
		d.pages[idx] = p
		return p
	}
	if p.epoch != d.epoch {
		np := &page{epoch: d.epoch}
		np.data = p.data
		d.pages[idx] = np
		return np
	}
	return p
}

// rawRead copies device bytes without accounting or hooks. Bytes beyond size are not touched; returns count.
func (d *Disk) rawRead(p []byte, off int64) int {
	limit := d.size
	if d.TruncAt > 0 && d.TruncAt < limit {
		limit = d.TruncAt
	}
	if off >= limit {
		return 0
	}
	n := int64(len(p))
	if off+n > limit {
		n = limit - off
	}
	var done int64
	for done < n {
		idx := (off + done) / PageSize
		po := (off + done) % PageSize
		c := PageSize - po
		if c > n-done {
			c = n - done
		}
		if pg := d.pages[idx]; pg != nil {
			copy(p[done:done+c], pg.data[po:po+c])
		} else {
			clear(p[done : done+c])
		}
		done += c
	}
	return int(n)
}

// Peek reads bytes for the harness (no accounting, ignores truncation).
func (d *Disk) Peek(off, n int64) []byte {
	b := make([]byte, n)
	t := d.TruncAt
	d.TruncAt = 0
	d.rawRead(b, off)
	d.TruncAt = t
	return b
}

// Poke writes bytes for the harness (no accounting, no guard, no log).
func (d *Disk) Poke(off int64, b []byte) {
	d.rawWrite(b, off)
}

func (d *Disk) rawWrite(p []byte, off int64) {
	n := int64(len(p))
	var done int64
	for done < n {
		idx := (off + done) / PageSize
		po := (off + done) % PageSize
		c := PageSize - po
		if c > n-done {
			c = n - done
		}
		if d.pages[idx] == nil && isZero(p[done:done+c]) {
			done += c // zeros into a hole: stay sparse
			continue
		}
		pg := d.pageForWrite(idx)
		copy(pg.data[po:po+c], p[done:done+c])
		done += c
	}
}

// FillNoise writes deterministic noise over [off, off+n) (harness use).
func (d *Disk) FillNoise(off, n int64, seed uint64) {
	buf := make([]byte, 0, 1<<16)
	x := seed | 1
	for n > 0 {
		c := int64(cap(buf))
		if c > n {
			c = n
		}
		buf = buf[:c]
		for i := 0; i+8 <= len(buf); i += 8 {
			x ^= x << 13
			x ^= x >> 7
			x ^= x << 17
			binary.LittleEndian.PutUint64(buf[i:], x)
		}
		for i := len(buf) &^ 7; i < len(buf); i++ {
			x ^= x << 13
			x ^= x >> 7
			x ^= x << 17
			buf[i] = byte(x)
		}
		d.rawWrite(buf, off)
		off += c
		n -= c
	}
}

// ---- backend.File / io interfaces ----

func (d *Disk) ReadAt(p []byte, off int64) (int, error) {
	if d.Locked {
		d.mu.Lock()
		defer d.mu.Unlock()
	}
	if d.closed {
		return 0, fs.ErrClosed
	}
	if d.Yield != nil {
		d.Yield("readat.pre")
	}
	if d.ReadBudget > 0 && d.St.Reads >= d.ReadBudget {
		panic(ErrReadBudget)
	}
	if !d.NoStats {
		d.St.Reads++
		d.St.BytesRead += int64(len(p))
		if int64(len(p)) > d.St.MaxReadReq {
			d.St.MaxReadReq = int64(len(p))
		}
	}
	if d.MaxReadAllowed > 0 && int64(len(p)) > d.MaxReadAllowed && int64(len(p)) > d.OversizeRead {
		d.OversizeRead = int64(len(p))
		d.OversizeLocus = Locus(2)
	}
	if d.LogEvents {
		d.seq++
		d.Events = append(d.Events, Event{Seq: d.seq, Kind: EvRead, Off: off, Len: int64(len(p))})
	}
	if off < 0 {
		return 0, errors.New("simdisk: negative offset")
	}
	n := d.rawRead(p, off)
	if d.Yield != nil {
		d.Yield("readat.post")
	}
	if n < len(p) {
		return n, io.EOF
	}
	return n, nil
}

func (d *Disk) WriteAt(p []byte, off int64) (int, error) {
	if d.Locked {
		d.mu.Lock()
		defer d.mu.Unlock()
	}
	if d.closed {
		return 0, fs.ErrClosed
	}
	if off < 0 {
		return 0, errors.New("simdisk: negative offset")
	}
	d.St.Writes++
	d.St.BytesWritten += int64(len(p))
	if d.guardOn && d.GuardHit == nil && len(p) > 0 && !d.covered(off, int64(len(p))) {
		d.GuardHit = &GuardViolation{Off: off, Len: int64(len(p)), Locus: Locus(2)}
	}
	if d.LogEvents {
		d.seq++
		ev := Event{Seq: d.seq, Kind: EvWrite, Off: off, Len: int64(len(p))}
		if d.RecordData {
			ev.Data = append([]byte(nil), p...)
		}
		d.Events = append(d.Events, ev)
	}
	if off+int64(len(p)) > d.size {
		if d.Grow {
			// behave like a regular image file
			d.size = off + int64(len(p))
		} else {
			// behave like a block device: nothing exists beyond the end
			if d.BeyondEnd == nil {
				d.BeyondEnd = &GuardViolation{Off: off, Len: int64(len(p)), Locus: Locus(2)}
			}
			fit := d.size - off
			if fit < 0 {
				fit = 0
			}
			d.rawWrite(p[:fit], off)
			return int(fit), ErrNoSpace
		}
	}
	d.rawWrite(p, off)
	return len(p), nil
}

func (d *Disk) covered(off, n int64) bool {
	// allowed extents are kept sorted and merged
	for _, e := range d.allowed {
		if off >= e.Off && off+n <= e.End() {
			return true
		}
	}
	return false
}

// SetGuard arms the write guard: any write touching a byte outside the extents is recorded.
func (d *Disk) SetGuard(ext ...Extent) {
	d.guardOn = true
	d.GuardHit = nil
	s := append([]Extent(nil), ext...)
	sort.Slice(s, func(i, j int) bool { return s[i].Off < s[j].Off })
	var m []Extent
	for _, e := range s {
		if e.Len <= 0 {
			continue
		}
		if len(m) > 0 && e.Off <= m[len(m)-1].End() {
			if e.End() > m[len(m)-1].End() {
				m[len(m)-1].Len = e.End() - m[len(m)-1].Off
			}
			continue
		}
		m = append(m, e)
	}
	d.allowed = m
}

func (d *Disk) ClearGuard() { d.guardOn = false; d.allowed = nil; d.GuardHit = nil }

func (d *Disk) Sync() error {
	d.St.Syncs++
	if d.LogEvents {
		d.seq++
		d.Events = append(d.Events, Event{Seq: d.seq, Kind: EvSync})
	}
	return nil
}

func (d *Disk) Read(p []byte) (int, error) {
	// the device has one shared offset, as an *os.File has: whoever gets to run between a Seek and the Read
	// that relies on it moves it
	if d.Yield != nil {
		d.Yield("read.pre")
	}
	n, err := d.ReadAt(p, d.pos)
	d.pos += int64(n)
	if n > 0 && err == io.EOF {
		err = nil
	}
	return n, err
}

func (d *Disk) Seek(offset int64, whence int) (int64, error) {
	var np int64
	switch whence {
	case io.SeekStart:
		np = offset
	case io.SeekCurrent:
		np = d.pos + offset
	case io.SeekEnd:
		np = d.size + offset
	default:
		return 0, errors.New("simdisk: bad whence")
	}
	if np < 0 {
		return 0, errors.New("simdisk: negative position")
	}
	d.pos = np
	if d.Yield != nil {
		d.Yield("seek.post")
	}
	return np, nil
}

func (d *Disk) Close() error { return nil }

type fileInfo struct{ size int64 }

func (fi fileInfo) Name() string       { return "simdisk" }
func (fi fileInfo) Size() int64        { return fi.size }
func (fi fileInfo) Mode() fs.FileMode  { return 0o644 }
func (fi fileInfo) ModTime() time.Time { return time.Unix(946684800, 0) }
func (fi fileInfo) IsDir() bool        { return false }
func (fi fileInfo) Sys() any           { return nil }

func (d *Disk) Stat() (fs.FileInfo, error) { return fileInfo{d.size}, nil }

// ---- backend.Storage ----

func (d *Disk) Sys() (*os.File, error) { return nil, backend.ErrNotSuitable }

func (d *Disk) Writable() (backend.WritableFile, error) {
	d.St.WritableCalls++
	if d.LogEvents {
		d.seq++
		d.Events = append(d.Events, Event{Seq: d.seq, Kind: EvWritable})
	}
	if d.ReadOnly {
		return nil, backend.ErrIncorrectOpenMode
	}
	return d, nil
}

func (d *Disk) Path() string { return "" }

var _ backend.Storage = (*Disk)(nil)
var _ backend.WritableFile = (*Disk)(nil)

// ---- hashing ----

func isZero(b []byte) bool {
	for _, v := range b {
		if v != 0 {
			return false
		}
	}
	return true
}

// HashRange returns the SHA-256 of bytes [off, off+n) in a canonical sparse form (zero pages skipped).
func (d *Disk) HashRange(off, n int64) [32]byte {
	h := sha256.New()
	var idxs []int64
	first := off / PageSize
	last := (off + n - 1) / PageSize
	for k := range d.pages {
		if k >= first && k <= last {
			idxs = append(idxs, k)
		}
	}
	sort.Slice(idxs, func(i, j int) bool { return idxs[i] < idxs[j] })
	var hdr [8]byte
	for _, k := range idxs {
		pg := d.pages[k]
		lo := int64(0)
		hi := int64(PageSize)
		if k*PageSize < off {
			lo = off - k*PageSize
		}
		if (k+1)*PageSize > off+n {
			hi = off + n - k*PageSize
		}
		seg := pg.data[lo:hi]
		if isZero(seg) {
			continue
		}
		binary.LittleEndian.PutUint64(hdr[:], uint64(k*PageSize+lo-off))
		h.Write(hdr[:])
		h.Write(seg)
	}
	var out [32]byte
	copy(out[:], h.Sum(nil))
	return out
}

// Hash hashes the entire device (including bytes written beyond the nominal size).
func (d *Disk) Hash() [32]byte {
	max := d.size
	for k := range d.pages {
		if (k+1)*PageSize > max {
			max = (k + 1) * PageSize
		}
	}
	return d.HashRange(0, max)
}

// WrittenPages returns the number of materialised pages.
func (d *Disk) WrittenPages() int { return len(d.pages) }

// MaxWrittenEnd returns the end offset of the highest non-zero byte (0 if blank).
func (d *Disk) MaxWrittenEnd() int64 {
	var best int64 = -1
	for k, pg := range d.pages {
		if k < best/PageSize {
			continue
		}
		for i := PageSize - 1; i >= 0; i-- {
			if pg.data[i] != 0 {
				if e := k*PageSize + int64(i); e > best {
					best = e
				}
				break
			}
		}
	}
	return best + 1
}

// DumpTo writes the image [off, off+n) to a host file (sparse).
func (d *Disk) DumpTo(path string, off, n int64) error {
	f, err := os.Create(path)
	if err != nil {
		return err
	}
	defer f.Close()
	if err := f.Truncate(n); err != nil {
		return err
	}
	first := off / PageSize
	last := (off + n - 1) / PageSize
	for k, pg := range d.pages {
		if k < first || k > last {
			continue
		}
		lo := int64(0)
		hi := int64(PageSize)
		if k*PageSize < off {
			lo = off - k*PageSize
		}
		if (k+1)*PageSize > off+n {
			hi = off + n - k*PageSize
		}
		if isZero(pg.data[lo:hi]) {
			continue
		}
		if _, err := f.WriteAt(pg.data[lo:hi], k*PageSize+lo-off); err != nil {
			return err
		}
	}
	return nil
}

// LoadFrom reads a host file into the disk at the given offset (zero pages skipped).
func (d *Disk) LoadFrom(path string, off int64) error {
	f, err := os.Open(path)
	if err != nil {
		return err
	}
	defer f.Close()
	buf := make([]byte, 1<<20)
	var pos int64
	for {
		// holes of a sparse host file are skipped (SEEK_DATA), rounded down to a page boundary
		if np, serr := f.Seek(pos, 3); serr == nil && np > pos {
			pos = np &^ (PageSize - 1)
		} else if errors.Is(serr, syscall.ENXIO) {
			break // no data at or after pos
		}
		if _, serr := f.Seek(pos, io.SeekStart); serr != nil {
			return serr
		}
		n, err := io.ReadFull(f, buf)
		if n > 0 {
			for i := 0; i < n; i += PageSize {
				j := i + PageSize
				if j > n {
					j = n
				}
				if !isZero(buf[i:j]) {
					d.rawWrite(buf[i:j], off+pos+int64(i))
				}
			}
			pos += int64(n)
		}
		if err != nil {
			break
		}
	}
	return nil
}

// Locus returns the innermost go-diskfs frame on the current stack ("pkg.Func"), skipping simdisk frames.
func Locus(skip int) string {
	pcs := make([]uintptr, 48)
	n := runtime.Callers(skip, pcs)
	frames := runtime.CallersFrames(pcs[:n])
	for {
		fr, more := frames.Next()
		if strings.Contains(fr.Function, "github.com/diskfs/go-diskfs") && !strings.Contains(fr.Function, "/backend.") {
			return shortFunc(fr.Function)
		}
		if !more {
			break
		}
	}
	return "unknown"
}

func shortFunc(f string) string {
	f = strings.TrimPrefix(f, "github.com/diskfs/go-diskfs/")
	f = strings.TrimPrefix(f, "github.com/diskfs/go-diskfs.")
	return f
}

// LocusFromStack extracts the innermost go-diskfs function from a debug.Stack() dump.
func LocusFromStack(stack []byte) string {
	for _, ln := range strings.Split(string(stack), "\n") {
		ln = strings.TrimSpace(ln)
		if strings.HasPrefix(ln, "github.com/diskfs/go-diskfs") {
			if i := strings.LastIndex(ln, "("); i > 0 {
				ln = ln[:i]
			}
			if strings.Contains(ln, "/backend.") {
				continue
			}
			return shortFunc(ln)
		}
	}
	return "unknown"
}

func (e Event) String() string {
	return fmt.Sprintf("#%d %s off=%d len=%d", e.Seq, e.Kind, e.Off, e.Len)
}

// HashExcept hashes the whole device with the given extents treated as zeros.
func (d *Disk) HashExcept(ext []Extent) [32]byte {
	h := sha256.New()
	idxs := make([]int64, 0, len(d.pages))
	for k := range d.pages {
		idxs = append(idxs, k)
	}
	sort.Slice(idxs, func(i, j int) bool { return idxs[i] < idxs[j] })
	var hdr [8]byte
	var tmp [PageSize]byte
	for _, k := range idxs {
		pg := d.pages[k]
		base := k * PageSize
		buf := pg.data[:]
		masked := false
		for _, e := range ext {
			lo, hi := e.Off, e.End()
			if hi <= base || lo >= base+PageSize {
				continue
			}
			if !masked {
				tmp = pg.data
				buf = tmp[:]
				masked = true
			}
			if lo < base {
				lo = base
			}
			if hi > base+PageSize {
				hi = base + PageSize
			}
			clear(tmp[lo-base : hi-base])
		}
		if isZero(buf) {
			continue
		}
		binary.LittleEndian.PutUint64(hdr[:], uint64(base))
		h.Write(hdr[:])
		h.Write(buf)
	}
	var out [32]byte
	copy(out[:], h.Sum(nil))
	return out
}

// HashRangeCanonical hashes [off, off+n) in 4 KiB chunks aligned to off (zero chunks skipped), so
// that the same bytes at another device offset give the same hash.
func (d *Disk) HashRangeCanonical(off, n int64) [32]byte {
	h := sha256.New()
	chunks := map[int64]struct{}{}
	first := off / PageSize
	last := (off + n - 1) / PageSize
	for k := range d.pages {
		if k < first || k > last {
			continue
		}
		lo := k*PageSize - off
		hi := lo + PageSize - 1
		if lo < 0 {
			lo = 0
		}
		if hi >= n {
			hi = n - 1
		}
		for c := lo / PageSize; c <= hi/PageSize; c++ {
			chunks[c] = struct{}{}
		}
	}
	idx := make([]int64, 0, len(chunks))
	for c := range chunks {
		idx = append(idx, c)
	}
	sort.Slice(idx, func(i, j int) bool { return idx[i] < idx[j] })
	var hdr [8]byte
	for _, c := range idx {
		ln := int64(PageSize)
		if c*PageSize+ln > n {
			ln = n - c*PageSize
		}
		b := d.Peek(off+c*PageSize, ln)
		if isZero(b) {
			continue
		}
		binary.LittleEndian.PutUint64(hdr[:], uint64(c))
		h.Write(hdr[:])
		h.Write(b)
	}
	var out [32]byte
	copy(out[:], h.Sum(nil))
	return out
}

// NonZeroExtents returns the merged extents of pages holding at least one non-zero byte.
func (d *Disk) NonZeroExtents() [][2]int64 {
	var idx []int64
	for k, pg := range d.pages {
		if !isZero(pg.data[:]) {
			idx = append(idx, k)
		}
	}
	sort.Slice(idx, func(i, j int) bool { return idx[i] < idx[j] })
	var out [][2]int64
	for _, k := range idx {
		if n := len(out); n > 0 && out[n-1][0]+out[n-1][1] == k*PageSize {
			out[n-1][1] += PageSize
			continue
		}
		out = append(out, [2]int64{k * PageSize, PageSize})
	}
	return out
}

// MaxWrittenEndIn returns the end offset of the highest non-zero byte inside [off, off+n) (off if none).
func (d *Disk) MaxWrittenEndIn(off, n int64) int64 {
	best := off
	for k, pg := range d.pages {
		base := k * PageSize
		if base+PageSize <= off || base >= off+n {
			continue
		}
		for i := PageSize - 1; i >= 0; i-- {
			p := base + int64(i)
			if p < off || p >= off+n {
				continue
			}
			if pg.data[i] != 0 {
				if p+1 > best {
					best = p + 1
				}
				break
			}
		}
	}
	return best
}
