// Package core holds what every property check shares: the single PRNG, the explicit
// replayable trace, violations and their signatures, the ddmin shrinker and the
// property interface.
package core

import (
	"encoding/json"
	"fmt"
	"hash/fnv"
	"os"
	"runtime/debug"
	"sort"
	"strings"
	"syscall"

	"dsim/simdisk"
)

// ---------------------------------------------------------------- PRNG

// Rng is SplitMix64. One Rng, seeded from VERIF_SEED + (property, worker, run), decides everything in a run.
type Rng struct{ s uint64 }

func NewRng(seed uint64) *Rng { return &Rng{s: seed} }

func (r *Rng) U64() uint64 {
	r.s += 0x9E3779B97F4A7C15
	z := r.s
	z = (z ^ (z >> 30)) * 0xBF58476D1CE4E5B9
	z = (z ^ (z >> 27)) * 0x94D049BB133111EB
	return z ^ (z >> 31)
}

// Mix derives a sub-seed.
func Mix(vals ...uint64) uint64 {
	r := Rng{s: 0x1234567}
	var acc uint64
	for _, v := range vals {
		r.s ^= v
		acc = r.U64()
	}
	return acc
}

func HashStr(s string) uint64 {
	h := fnv.New64a()
	h.Write([]byte(s))
	return h.Sum64()
}

func (r *Rng) Intn(n int) int {
	if n <= 1 {
		return 0
	}
	return int(r.U64() % uint64(n))
}
func (r *Rng) Int63n(n int64) int64 {
	if n <= 1 {
		return 0
	}
	return int64(r.U64() % uint64(n))
}
func (r *Rng) Range(lo, hi int64) int64 { // inclusive
	if hi <= lo {
		return lo
	}
	return lo + r.Int63n(hi-lo+1)
}
func (r *Rng) Bool() bool          { return r.U64()&1 == 1 }
func (r *Rng) Chance(pct int) bool { return r.Intn(100) < pct }

// PickW returns an index chosen with the given weights.
func (r *Rng) PickW(w ...int) int {
	t := 0
	for _, x := range w {
		t += x
	}
	k := r.Intn(t)
	for i, x := range w {
		if k < x {
			return i
		}
		k -= x
	}
	return len(w) - 1
}
func PickOf[T any](r *Rng, xs ...T) T { return xs[r.Intn(len(xs))] }

// Bytes returns deterministic content for (tag, n): every file content is attributable.
func PatternBytes(tag uint64, n int64) []byte {
	b := make([]byte, n)
	x := tag*0x9E3779B97F4A7C15 | 1
	for i := range b {
		x ^= x << 13
		x ^= x >> 7
		x ^= x << 17
		b[i] = byte(x>>24) | 1 // never zero, so zero-fill is distinguishable from data
	}
	return b
}

// ---------------------------------------------------------------- trace

// Op is one step of a replayable trace (operation, fault or schedule decision). Flat on purpose:
// the shrinker can drop ops and shrink the numeric fields without knowing the property.
type Op struct {
	K string `json:"k"`
	P string `json:"p,omitempty"`
	Q string `json:"q,omitempty"`
	A int64  `json:"a,omitempty"`
	B int64  `json:"b,omitempty"`
	C int64  `json:"c,omitempty"`
	D int64  `json:"d,omitempty"`
	S string `json:"s,omitempty"`
}

func (o Op) String() string {
	var sb strings.Builder
	sb.WriteString(o.K)
	sb.WriteString("(")
	sep := ""
	add := func(s string) { sb.WriteString(sep); sb.WriteString(s); sep = "," }
	if o.P != "" {
		add(o.P)
	}
	if o.Q != "" {
		add("->" + o.Q)
	}
	if o.A != 0 || o.B != 0 || o.C != 0 || o.D != 0 {
		add(fmt.Sprintf("a=%d,b=%d,c=%d,d=%d", o.A, o.B, o.C, o.D))
	}
	if o.S != "" {
		s := o.S
		if len(s) > 40 {
			s = s[:40] + "…"
		}
		add("s=" + s)
	}
	sb.WriteString(")")
	return sb.String()
}

// Trace is the complete, explicit description of one simulated run. Replay executes the
// trace, never the PRNG.
type Trace struct {
	Property string            `json:"property"`
	Seed     uint64            `json:"seed"`
	Tier     string            `json:"tier,omitempty"`
	Cfg      map[string]int64  `json:"cfg,omitempty"`
	CfgS     map[string]string `json:"cfgs,omitempty"`
	Ops      []Op              `json:"ops"`

	// filled in when a violation is written out
	Signature string `json:"signature,omitempty"`
	Detail    string `json:"detail,omitempty"`
}

func (t *Trace) Clone() *Trace {
	n := *t
	n.Cfg = map[string]int64{}
	for k, v := range t.Cfg {
		n.Cfg[k] = v
	}
	n.CfgS = map[string]string{}
	for k, v := range t.CfgS {
		n.CfgS[k] = v
	}
	n.Ops = append([]Op(nil), t.Ops...)
	return &n
}

func (t *Trace) I(k string) int64   { return t.Cfg[k] }
func (t *Trace) Sg(k string) string { return t.CfgS[k] }

func (t *Trace) Summary() string {
	var keys []string
	for k := range t.Cfg {
		keys = append(keys, k)
	}
	sort.Strings(keys)
	var sb strings.Builder
	for _, k := range keys {
		fmt.Fprintf(&sb, "%s=%d ", k, t.Cfg[k])
	}
	keys = keys[:0]
	for k := range t.CfgS {
		keys = append(keys, k)
	}
	sort.Strings(keys)
	for _, k := range keys {
		fmt.Fprintf(&sb, "%s=%s ", k, t.CfgS[k])
	}
	sb.WriteString("| ")
	for i, o := range t.Ops {
		if i >= 12 {
			fmt.Fprintf(&sb, "… (+%d ops)", len(t.Ops)-i)
			break
		}
		sb.WriteString(o.String())
		sb.WriteString(" ")
	}
	return sb.String()
}

func LoadTrace(path string) (*Trace, error) {
	b, err := os.ReadFile(path)
	if err != nil {
		return nil, err
	}
	var t Trace
	if err := json.Unmarshal(b, &t); err != nil {
		return nil, err
	}
	if t.Cfg == nil {
		t.Cfg = map[string]int64{}
	}
	if t.CfgS == nil {
		t.CfgS = map[string]string{}
	}
	return &t, nil
}

func (t *Trace) Save(path string) error {
	b, err := json.MarshalIndent(t, "", " ")
	if err != nil {
		return err
	}
	return os.WriteFile(path, append(b, '\n'), 0o644)
}

// ---------------------------------------------------------------- violations

// Violation is a failed oracle clause. Signature = clause | trigger | locus.
type Violation struct {
	Clause  string `json:"clause"`  // which sentence of the oracle failed, e.g. C10.bytes-past-eof
	Trigger string `json:"trigger"` // kind (+coarse class) of the operation / fault that exposed it
	Locus   string `json:"locus"`   // innermost go-diskfs function involved, if known
	Detail  string `json:"detail"`
	OpIndex int    `json:"op_index"`
}

func (v *Violation) Sig() string {
	if v == nil {
		return ""
	}
	return v.Clause + "|" + v.Trigger + "|" + v.Locus
}

// Result is what one execution of a trace reports.
type Result struct {
	V      *Violation
	Narrow *Trace // for enumerating executors: the single failing case as its own trace

	Evals      int64            // cases evaluated by this run (≥1)
	Steps      int64            // harness operations executed
	DevOps     int64            // simulated device operations
	Faults     map[string]int64 // fault kinds that actually fired
	Probes     map[string]int64 // rare-condition probes hit
	Hashes     []uint64         // hashes of distinct non-trivial cases covered by this run
	SimTimeSec float64          // simulated (fake clock) seconds covered
	Sample     string           // human-readable description of the case
}

func NewResult() *Result {
	return &Result{Faults: map[string]int64{}, Probes: map[string]int64{}}
}
func (r *Result) Fault(k string)           { r.Faults[k]++ }
func (r *Result) FaultN(k string, n int64) { r.Faults[k] += n }
func (r *Result) Probe(k string)           { r.Probes[k]++ }
func (r *Result) ProbeN(k string, n int64) { r.Probes[k] += n }

// Property is one check.
type Property interface {
	ID() string
	Level() string // exploration | fault_enumeration
	Gen(r *Rng, tier string, idx int) *Trace
	Exec(t *Trace) *Result
	Rule() string
	Assumptions() []string
	Components() map[string][]string // "real": [...], "stub": [...]
	ProbeNames() []string            // probes expected to be >0 over a batch
}

var registry = map[string]Property{}

func Register(p Property)    { registry[p.ID()] = p }
func Get(id string) Property { return registry[id] }
func IDs() []string {
	var s []string
	for k := range registry {
		s = append(s, k)
	}
	sort.Strings(s)
	return s
}

// Guard runs f and converts a panic into (stack, value). Used around every library call.
func Guard(f func()) (panicked bool, val any, locus string, stack string) {
	defer func() {
		if r := recover(); r != nil {
			st := debug.Stack()
			panicked = true
			val = r
			locus = simdisk.LocusFromStack(st)
			stack = string(st)
		}
	}()
	f()
	return
}

// PanicClass turns a panic value into a short stable class for signatures/details.
func PanicClass(v any) string {
	s := fmt.Sprint(v)
	switch {
	case strings.Contains(s, "index out of range"):
		return "index-out-of-range"
	case strings.Contains(s, "slice bounds out of range"):
		return "slice-bounds"
	case strings.Contains(s, "nil pointer"):
		return "nil-deref"
	case strings.Contains(s, "makeslice"):
		return "makeslice"
	case strings.Contains(s, "divide by zero"):
		return "div-zero"
	case strings.Contains(s, "out of memory"):
		return "oom"
	}
	if len(s) > 40 {
		s = s[:40]
	}
	return s
}

// ---------------------------------------------------------------- shrinking

// Shrink minimises t while exec keeps reporting the same signature. Deterministic ddmin over
// the op list, then numeric-argument simplification. budget = max executions.
func Shrink(p Property, t *Trace, sig string, budget int) (*Trace, int) {
	execs := 0
	same := func(c *Trace) bool {
		if execs >= budget {
			return false
		}
		execs++
		r := SafeExec(p, c)
		return r != nil && r.V != nil && r.V.Sig() == sig
	}
	cur := t.Clone()
	// drop everything after the failing op first
	r0 := SafeExec(p, cur)
	execs++
	if r0 != nil && r0.V != nil && r0.V.Sig() == sig && r0.V.OpIndex >= 0 && r0.V.OpIndex+1 < len(cur.Ops) {
		c := cur.Clone()
		c.Ops = c.Ops[:r0.V.OpIndex+1]
		if same(c) {
			cur = c
		}
	}
	// ddmin
	n := 2
	for len(cur.Ops) >= 2 && execs < budget {
		chunk := (len(cur.Ops) + n - 1) / n
		reduced := false
		for start := 0; start < len(cur.Ops); start += chunk {
			end := start + chunk
			if end > len(cur.Ops) {
				end = len(cur.Ops)
			}
			c := cur.Clone()
			c.Ops = append(append([]Op(nil), cur.Ops[:start]...), cur.Ops[end:]...)
			if len(c.Ops) == 0 {
				continue
			}
			if same(c) {
				cur = c
				if n > 2 {
					n--
				}
				reduced = true
				break
			}
		}
		if !reduced {
			if n >= len(cur.Ops) {
				break
			}
			n *= 2
			if n > len(cur.Ops) {
				n = len(cur.Ops)
			}
		}
	}
	// single-op removal pass
	for i := len(cur.Ops) - 1; i >= 0 && len(cur.Ops) > 1 && execs < budget; i-- {
		c := cur.Clone()
		c.Ops = append(append([]Op(nil), cur.Ops[:i]...), cur.Ops[i+1:]...)
		if same(c) {
			cur = c
		}
	}
	// numeric simplification: try 0, 1, half for A..D
	for i := range cur.Ops {
		for f := 0; f < 4 && execs < budget; f++ {
			get := func(o *Op) *int64 {
				switch f {
				case 0:
					return &o.A
				case 1:
					return &o.B
				case 2:
					return &o.C
				}
				return &o.D
			}
			v := *get(&cur.Ops[i])
			if v == 0 {
				continue
			}
			for _, cand := range []int64{0, 1, v / 2, v - 1} {
				if cand == v || (cand < 0) != (v < 0) && cand != 0 {
					continue
				}
				c := cur.Clone()
				*get(&c.Ops[i]) = cand
				if same(c) {
					cur = c
					break
				}
			}
		}
	}
	return cur, execs
}

// SafeExec runs Exec and converts an escaping panic (harness bug or unguarded library panic)
// into a violation with clause "harness.panic" so that it is never silently lost.
func SafeExec(p Property, t *Trace) (res *Result) {
	defer func() {
		if r := recover(); r != nil {
			st := debug.Stack()
			res = NewResult()
			res.Evals = 1
			res.V = &Violation{Clause: "harness.escaped-panic", Trigger: PanicClass(r), Locus: simdisk.LocusFromStack(st), Detail: fmt.Sprintf("%v\n%s", r, st), OpIndex: -1}
		}
	}()
	return p.Exec(t)
}

// ---------------------------------------------------------------- current-case marker
//
// Enumerating executors call MarkCase before each case. The marker lives in a memory-mapped
// file so that, when the worker process is killed by the runtime (fatal out-of-memory, stack
// overflow) or hangs, the runner can still tell which single case was executing.

var caseBuf []byte

// EnableCaseMarker maps path (created/truncated to 64 KiB).
func EnableCaseMarker(path string) error {
	f, err := os.OpenFile(path, os.O_RDWR|os.O_CREATE|os.O_TRUNC, 0o644)
	if err != nil {
		return err
	}
	defer f.Close()
	if err := f.Truncate(1 << 16); err != nil {
		return err
	}
	b, err := mmapFile(f, 1<<16)
	if err != nil {
		return err
	}
	caseBuf = b
	return nil
}

// MarkCase records the narrow trace (base trace + case ops) that is about to run.
func MarkCase(base *Trace, caseOps []Op) {
	if caseBuf == nil {
		return
	}
	nt := *base
	nt.Ops = append(append([]Op(nil), base.Ops...), caseOps...)
	b, err := json.Marshal(&nt)
	if err != nil || len(b)+8 > len(caseBuf) {
		caseBuf[0] = 0
		return
	}
	n := len(b)
	caseBuf[0] = 0 // invalidate while writing
	copy(caseBuf[8:], b)
	caseBuf[1], caseBuf[2], caseBuf[3] = byte(n), byte(n>>8), byte(n>>16)
	caseBuf[0] = 1
}

// ClearCase marks "no case in progress".
func ClearCase() {
	if caseBuf != nil {
		caseBuf[0] = 0
	}
}

// ReadCaseMarker returns the trace recorded in the marker file, if any.
func ReadCaseMarker(path string) *Trace {
	b, err := os.ReadFile(path)
	if err != nil || len(b) < 8 || b[0] != 1 {
		return nil
	}
	n := int(b[1]) | int(b[2])<<8 | int(b[3])<<16
	if 8+n > len(b) {
		return nil
	}
	var t Trace
	if json.Unmarshal(b[8:8+n], &t) != nil {
		return nil
	}
	if t.Cfg == nil {
		t.Cfg = map[string]int64{}
	}
	if t.CfgS == nil {
		t.CfgS = map[string]string{}
	}
	return &t
}

// ---------------------------------------------------------------- exit hooks

var atExit []func()

// AtExit registers a function the runner calls before a worker/replay process exits normally.
func AtExit(f func()) { atExit = append(atExit, f) }

// RunAtExit runs the registered hooks.
func RunAtExit() {
	for _, f := range atExit {
		f()
	}
}

// CPUSeconds returns the CPU time (user+system) consumed by this process so far. Time budgets
// are measured in CPU time so that a loaded machine cannot turn a fast call into a "slow" one.
func CPUSeconds() float64 {
	var ru syscall.Rusage
	if err := syscall.Getrusage(syscall.RUSAGE_SELF, &ru); err != nil {
		return 0
	}
	return float64(ru.Utime.Sec+ru.Stime.Sec) + float64(ru.Utime.Usec+ru.Stime.Usec)/1e6
}
