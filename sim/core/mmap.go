package core

import (
	"os"
	"syscall"
)

func mmapFile(f *os.File, n int) ([]byte, error) {
	return syscall.Mmap(int(f.Fd()), 0, n, syscall.PROT_READ|syscall.PROT_WRITE, syscall.MAP_SHARED)
}
