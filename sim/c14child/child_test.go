// Package c14child is built as a test binary (go test -c) because testing/synctest — the fake
// clock — needs a *testing.T. The C14 executor starts it as a separate OS process per execution.
package c14child

import (
	"fmt"
	"os"
	"testing"
	"testing/synctest"

	"dsim/props"
)

func TestChild(t *testing.T) {
	tf := os.Getenv("C14_TRACE")
	if tf == "" {
		t.Skip("not started by the C14 executor")
	}
	mode := os.Getenv("C14_MODE")
	synctest.Test(t, func(t *testing.T) {
		out := props.RunC14Child(tf, mode)
		fmt.Println(out)
	})
}
