//go:build race

package sched

// With the race detector on, hand-offs between the scheduler and the tasks must not create
// happens-before edges (a channel or mutex hand-off at every step would order everything and
// blind the detector). The token is a plain word spun on in uninstrumented functions.
const spinTransport = true
