// Package sched is the deterministic cooperative scheduler: registered tasks (real goroutines)
// run one at a time; at every yield point (lock request, lock release, device read) the running
// task parks and the scheduler picks the next runnable task from its PRNG (uniform or PCT-style
// priorities) or from a recorded decision list. Locks are modelled: a task requesting an owned
// lock is not runnable; no runnable task while tasks remain = deadlock.
//
// Everything that touches scheduler state from task goroutines is //go:norace and avoids maps
// and growing slices, so that under -race the detector sees only the program's own
// synchronisation.
package sched

import (
	"fmt"
	"runtime"
	"strings"
)

const (
	MaxTasks = 40
	MaxLocks = 4096
)

type Rand interface{ Intn(n int) int }

type lockRec struct {
	id    uintptr
	owner int // task index+1, 0 = free
	name  string
}

type task struct {
	wake     chan struct{}
	wakeFlag int32
	done     bool
	started  bool
	waitLock uintptr
	waitName string
	point    string
	prio     int
	fn       func()
}

// Sched is one simulated execution.
type Sched struct {
	rng      Rand
	ntasks   int
	tasks    [MaxTasks]task
	nlocks   int
	locks    [MaxLocks]lockRec
	cur      int // running task index, -1 = scheduler
	back     chan struct{}
	backFlag int32

	Mode      int // 0 uniform random, 1 PCT priorities, 2 bursts (keep the running task with probability 7/8)
	pctChange [8]int
	last      int

	Steps     int
	MaxSteps  int
	Preset    []byte // decisions to replay (index among runnable tasks, ascending task id)
	Decisions []byte // decisions taken (preallocated)
	nDec      int

	aborted bool

	// results
	Deadlock   bool
	Livelock   bool
	DeadlockAt string
	PanicVal   any
	PanicTask  int
	PanicStack string

	// coverage
	LockWaits int
	TraceHash uint64
	StateSet  map[uint64]struct{} // scheduler goroutine only
	// OnQuiescent is called by the scheduler goroutine between steps when no lock is held.
	OnQuiescent func() error
	InvErr      error
}

func New(rng Rand, maxSteps int) *Sched {
	s := &Sched{rng: rng, cur: -1, MaxSteps: maxSteps, back: make(chan struct{}), StateSet: map[uint64]struct{}{}}
	s.Decisions = make([]byte, maxSteps+8)
	return s
}

// Go registers a task. Must be called before Run.
func (s *Sched) Go(f func()) {
	t := &s.tasks[s.ntasks]
	t.wake = make(chan struct{})
	t.fn = f
	s.ntasks++
}

// ---- transport ----

//go:norace
func (s *Sched) signalTask(i int) {
	if spinTransport {
		s.tasks[i].wakeFlag = 1
		return
	}
	s.tasks[i].wake <- struct{}{}
}

//go:norace
func (s *Sched) waitWake(i int) {
	if spinTransport {
		for s.tasks[i].wakeFlag == 0 {
			if s.aborted {
				runtime.Goexit()
			}
			runtime.Gosched()
		}
		s.tasks[i].wakeFlag = 0
		return
	}
	<-s.tasks[i].wake
	if s.aborted {
		runtime.Goexit()
	}
}

// Abort releases the goroutines of tasks that did not finish (deadlock, step budget, invariant
// failure): they exit at their parking point.
//
//go:norace
func (s *Sched) Abort() {
	s.aborted = true
	if !spinTransport {
		for i := 0; i < s.ntasks; i++ {
			if !s.tasks[i].done {
				close(s.tasks[i].wake)
			}
		}
	}
}

//go:norace
func (s *Sched) signalBack() {
	if spinTransport {
		s.backFlag = 1
		return
	}
	s.back <- struct{}{}
}

//go:norace
func (s *Sched) waitBack() {
	if spinTransport {
		for s.backFlag == 0 {
			runtime.Gosched()
		}
		s.backFlag = 0
		return
	}
	<-s.back
}

// ---- called from task goroutines ----

// Yield parks the running task at a named point.
//
//go:norace
func (s *Sched) Yield(point string) {
	i := s.cur
	if i < 0 {
		return // not under the scheduler (set-up / sequential reference run)
	}
	s.tasks[i].point = point
	s.signalBack()
	s.waitWake(i)
}

//go:norace
func (s *Sched) findLock(id uintptr, name string) *lockRec {
	for k := 0; k < s.nlocks; k++ {
		if s.locks[k].id == id {
			return &s.locks[k]
		}
	}
	if s.nlocks >= MaxLocks {
		// recycle: drop free locks
		n := 0
		for k := 0; k < s.nlocks; k++ {
			if s.locks[k].owner != 0 {
				s.locks[n] = s.locks[k]
				n++
			}
		}
		s.nlocks = n
	}
	s.locks[s.nlocks] = lockRec{id: id, name: name}
	s.nlocks++
	return &s.locks[s.nlocks-1]
}

// Lock is the hook called before the real Lock: returns when the lock model grants the lock.
//
//go:norace
func (s *Sched) Lock(id uintptr, name string) {
	i := s.cur
	if i < 0 {
		return
	}
	// asking for a lock is a pre-emption point
	s.Yield("lock-request:" + name)
	for {
		l := s.findLock(id, name)
		if l.owner == 0 {
			l.owner = i + 1
			s.tasks[i].waitLock = 0
			return
		}
		s.tasks[i].waitLock = id
		s.tasks[i].waitName = name
		s.LockWaits++
		s.Yield("lock-wait:" + name)
	}
}

// Unlock is the hook called after the real Unlock.
//
//go:norace
func (s *Sched) Unlock(id uintptr, name string) {
	i := s.cur
	if i < 0 {
		return
	}
	l := s.findLock(id, name)
	l.owner = 0
	s.Yield("unlock:" + name)
}

//go:norace
func (s *Sched) lockFree(id uintptr) bool {
	for k := 0; k < s.nlocks; k++ {
		if s.locks[k].id == id {
			return s.locks[k].owner == 0
		}
	}
	return true
}

//go:norace
func (s *Sched) anyLockHeld() bool {
	for k := 0; k < s.nlocks; k++ {
		if s.locks[k].owner != 0 {
			return true
		}
	}
	return false
}

//go:norace
func (s *Sched) taskBody(i int) {
	s.waitWake(i)
	func() {
		defer func() {
			if r := recover(); r != nil {
				s.PanicVal = r
				s.PanicTask = i
				buf := make([]byte, 8192)
				s.PanicStack = string(buf[:runtime.Stack(buf, false)])
			}
		}()
		s.tasks[i].fn()
	}()
	s.tasks[i].done = true
	s.signalBack()
}

// Run executes the tasks to completion (or deadlock / step budget) under the scheduler.
//
//go:norace
func (s *Sched) Run() {
	for i := 0; i < s.ntasks; i++ {
		s.tasks[i].prio = s.rng.Intn(1000) + 10
		go s.taskBody(i)
	}
	if s.Mode == 1 {
		// priority change points: half of them early, half anywhere in a run of typical length
		for k := range s.pctChange {
			if k%2 == 0 {
				s.pctChange[k] = s.rng.Intn(200)
			} else {
				s.pctChange[k] = s.rng.Intn(4000)
			}
		}
	}
	var runnable [MaxTasks]int
	for {
		n := 0
		remaining := 0
		for i := 0; i < s.ntasks; i++ {
			t := &s.tasks[i]
			if t.done {
				continue
			}
			remaining++
			if t.waitLock != 0 && !s.lockFree(t.waitLock) {
				continue
			}
			runnable[n] = i
			n++
		}
		if remaining == 0 || s.PanicVal != nil {
			return
		}
		if n == 0 {
			s.Deadlock = true
			s.DeadlockAt = s.describe()
			return
		}
		if s.Steps >= s.MaxSteps {
			s.Livelock = true
			s.DeadlockAt = s.describe()
			return
		}
		if s.OnQuiescent != nil && !s.anyLockHeld() && s.InvErr == nil {
			if err := s.OnQuiescent(); err != nil {
				s.InvErr = err
				return
			}
		}
		// choose
		var pick int
		switch {
		case s.nDec < len(s.Preset):
			pick = int(s.Preset[s.nDec]) % n
		case s.Mode == 1:
			best := -1
			for k := 0; k < n; k++ {
				if best < 0 || s.tasks[runnable[k]].prio > s.tasks[runnable[best]].prio {
					best = k
				}
			}
			pick = best
			for _, cp := range s.pctChange {
				if cp == s.Steps {
					s.tasks[runnable[pick]].prio = s.rng.Intn(9) // demote the running task
				}
			}
		case s.Mode == 2:
			// bursts: the task that ran last keeps running with probability 7/8, so that one task can get through a
			// whole fetch (lock, read, decode) while another sits between two of its own steps
			pick = -1
			if s.rng.Intn(8) != 0 {
				for k := 0; k < n; k++ {
					if runnable[k] == s.last {
						pick = k
					}
				}
			}
			if pick < 0 {
				pick = s.rng.Intn(n)
			}
		default:
			pick = s.rng.Intn(n)
		}
		if s.nDec < len(s.Decisions) {
			s.Decisions[s.nDec] = byte(pick)
		}
		s.nDec++
		ti := runnable[pick]
		s.last = ti
		s.Steps++
		s.TraceHash = s.TraceHash*1099511628211 ^ uint64(ti+1)*31 ^ hashStr(s.tasks[ti].point)
		s.noteState()
		s.cur = ti
		s.signalTask(ti)
		s.waitBack()
		s.cur = -1
	}
}

// Taken returns the decisions made so far.
func (s *Sched) Taken() []byte {
	n := s.nDec
	if n > len(s.Decisions) {
		n = len(s.Decisions)
	}
	return s.Decisions[:n]
}

//go:norace
func (s *Sched) noteState() {
	var h uint64 = 1469598103934665603
	// held locks enter as a sum: the order of the lock records depends on which addresses the allocator hands
	// out (a block evicted from the cache may or may not have its address reused), the set of held locks does not
	var held uint64
	for k := 0; k < s.nlocks; k++ {
		if s.locks[k].owner != 0 {
			x := (uint64(s.locks[k].owner)*131 ^ hashStr(s.locks[k].name)) * 0x9e3779b97f4a7c15
			held += x ^ x>>29
		}
	}
	h = (h ^ held) * 1099511628211
	for i := 0; i < s.ntasks; i++ {
		if !s.tasks[i].done {
			h = (h ^ uint64(i+1)*977 ^ hashStr(s.tasks[i].point)) * 1099511628211
		}
	}
	s.StateSet[h] = struct{}{}
}

//go:norace
func hashStr(x string) uint64 {
	var h uint64 = 1469598103934665603
	for i := 0; i < len(x); i++ {
		h = (h ^ uint64(x[i])) * 1099511628211
	}
	return h
}

func (s *Sched) describe() string {
	var sb strings.Builder
	for i := 0; i < s.ntasks; i++ {
		t := &s.tasks[i]
		if t.done {
			continue
		}
		fmt.Fprintf(&sb, "task %d parked at %q", i, t.point)
		if t.waitLock != 0 {
			fmt.Fprintf(&sb, " waiting for %s", t.waitName)
			for k := 0; k < s.nlocks; k++ {
				if s.locks[k].id == t.waitLock && s.locks[k].owner != 0 {
					fmt.Fprintf(&sb, " (held by task %d)", s.locks[k].owner-1)
				}
			}
		}
		sb.WriteString("; ")
	}
	return sb.String()
}
