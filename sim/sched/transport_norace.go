//go:build !race

package sched

const spinTransport = false
