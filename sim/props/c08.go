package props

import "dsim/core"

// C08 — FAT volumes stay structurally sound on disk.
type c08 struct{}

func init() { core.Register(c08{}) }

func (c08) ID() string    { return "C08" }
func (c08) Level() string { return "exploration" }
func (c08) Rule() string {
	return "same seeded histories as C01; after Create and after every operation (accepted or refused) an independent FAT12/16/32 reader checks the raw bytes: BPB geometry equals the range given, FAT32 backup boot sector identical and FSInfo sane, two identical FAT copies, every chain in range / EOC-terminated / long enough, no cross-links, no used cluster without an owner; distinct = distinct sequences of (operation class, accepted/refused); non-trivial = at least one accepted mutation"
}
func (c08) Assumptions() []string {
	return []string{
		"the independent reader is our own (fsck.fat is not installed); it decodes the volume as the type the creator asked for",
		"'.' and '..' entries are not judged (the statement does not mention them)",
	}
}
func (c08) Components() map[string][]string {
	return map[string][]string{
		"real": {"filesystem/fat12, fat16, fat32"},
		"stub": {"block device (SimDisk)", "independent FAT structural reader (indep.CheckFAT)"},
	}
}
func (c08) ProbeNames() []string {
	return []string{"fat12", "fat16", "fat32", "op-refused", "fill-reached-refusal", "empty", "empty-by-truncate"}
}
func (c08) Budget(tier string) (int, int, int) {
	if tier == "thorough" {
		return 1500, 1 << 30, 600
	}
	return 50, 1 << 30, 120
}
func (c08) Gen(r *core.Rng, tier string, idx int) *core.Trace { return genFatHistory(r, tier, idx) }
func (c08) Exec(t *core.Trace) *core.Result {
	res, _ := execFatHistory(t, "C08", false)
	return res
}
