//go:build c17overlay

package props

import (
	"bytes"
	"fmt"
	"io"
	"os"
	"sort"
	"strconv"
	"strings"
	"sync"

	"dsim/core"
	"dsim/sched"
	"dsim/simdisk"

	"github.com/diskfs/go-diskfs/filesystem"
	"github.com/diskfs/go-diskfs/filesystem/squashfs"
)

// C17 — Concurrent readers of one squashfs image are safe and correct.
//
// This file is only built into the dsim-c17 binary, which is compiled with `go build -overlay`
// so that every Lock/Unlock in the squashfs package calls the scheduler hooks (see cmd/mkoverlay).
// One run = one image, 2..N reader tasks with their own handles plus one cache-resizing task,
// executed under the deterministic scheduler: the PRNG (or a recorded decision list) decides
// which task proceeds at every lock request, lock release and device read.
type c17 struct{}

func init() { core.Register(c17{}) }

func (c17) ID() string    { return "C17" }
func (c17) Level() string { return "exploration" }
func (c17) Rule() string {
	return "one evaluation = one schedule: 2..8 (quick) / 2..32 (thorough) reader tasks with own handles (ReadFile, ReadDir, Stat, Seek+partial Read on files sharing fragment and metadata blocks) and one SetCacheSize task on one opened squashfs image, interleaved by the seeded scheduler (uniform random or PCT priorities) at every lock request/release and before/after every device ReadAt; cache sizes 0, 1, 2, 4 blocks and default; oracle: bytes equal the sequential reference, all tasks finish (lock-model deadlock detection, step budget), LRU map/list invariants whenever no lock is held, and (race build) no data race; distinct = distinct (task, yield point) sequences; non-trivial = schedule with at least two tasks interleaved inside a cache get"
}
func (c17) Assumptions() []string {
	return []string{
		"GetCacheSize is not called concurrently (the statement speaks of readers and resizing)",
		"locks are modelled from the rewritten Lock/Unlock call sites of filesystem/squashfs; a blocking primitive that is not a mutex would be invisible to the model (none exists today)",
		"under -race the LRU invariant accessor is not used (it would itself race with the tasks); races are reported by the Go race detector for the schedule being run",
	}
}
func (c17) Components() map[string][]string {
	return map[string][]string{
		"real": {"filesystem/squashfs reader incl. lru.go (lock calls routed through the scheduler by a build-time overlay, otherwise unchanged)", "compressors (klauspost, ulikunitz, pierrec)", "Go runtime goroutines (one runs at a time)", "Go race detector (race build)"},
		"stub": {"goroutine scheduler (seeded token scheduler with lock model)", "block device with pre-emption points in ReadAt (SimDisk)"},
	}
}
func (c17) ProbeNames() []string {
	return []string{"cache-0", "cache-1", "cache-small", "cache-default", "resize-in-flight", "lock-wait", "pct", "uniform", "bursts"}
}
func (c17) Budget(tier string) (int, int, int) {
	if tier == "thorough" {
		return 900, 1 << 30, 300
	}
	return 45, 1 << 30, 120
}

const c17Files = 26

func (c17) Gen(r *core.Rng, tier string, idx int) *core.Trace {
	t := &core.Trace{Cfg: map[string]int64{}, CfgS: map[string]string{}}
	maxTasks := 8
	if tier == "thorough" {
		maxTasks = 32
	}
	nt := 2 + r.Intn(3)
	if r.Chance(30) {
		nt = 2 + r.Intn(maxTasks-1)
	}
	t.Cfg["tasks"] = int64(nt)
	t.Cfg["cache"] = core.PickOf[int64](r, 0, 1, 1, 2, 4, -1)
	t.Cfg["sqcomp"] = int64(r.Intn(4))
	t.Cfg["mode"] = int64(r.Intn(3))
	t.Cfg["bs"] = core.PickOf[int64](r, 4096, 4096, 8192)
	t.Cfg["schedseed"] = int64(r.U64() >> 2)
	perTask := 1 + r.Intn(6)
	hot := int64(r.Intn(c17Files))
	for ti := 0; ti < nt; ti++ {
		for k := 0; k < perTask; k++ {
			f := int64(r.Intn(c17Files))
			if r.Chance(50) {
				f = hot // contention on the same blocks
			}
			t.Ops = append(t.Ops, core.Op{K: "t", A: int64(ti), B: int64(r.PickW(50, 15, 10, 25)), C: f, D: r.Range(0, 60000)})
		}
	}
	if r.Chance(60) {
		n := 1 + r.Intn(4)
		for k := 0; k < n; k++ {
			t.Ops = append(t.Ops, core.Op{K: "t", A: int64(nt), B: 4, C: core.PickOf[int64](r, 0, 1, 2, 3, 8, 1000)})
		}
	}
	return t
}

type c17Image struct {
	d     *simdisk.Disk
	size  int64
	paths []string
	data  map[string][]byte
	dirs  map[string][]string
}

var (
	c17ImgMu    sync.Mutex
	c17ImgCache = map[string]*c17Image{}
)

func c17BuildImage(bs, comp int64) (*c17Image, error) {
	key := fmt.Sprintf("%d/%d", bs, comp)
	c17ImgMu.Lock()
	defer c17ImgMu.Unlock()
	if im, ok := c17ImgCache[key]; ok {
		return im, nil
	}
	var tree []imgEntry
	im := &c17Image{data: map[string][]byte{}, dirs: map[string][]string{}}
	add := func(p string, n int64, tag uint64) {
		b := core.PatternBytes(tag, n)
		// make part of it compressible so that compressed and raw blocks both occur
		for i := range b {
			if i%3 == 0 {
				b[i] = 'x'
			}
		}
		tree = append(tree, imgEntry{Path: p, Data: b})
		im.data[p] = b
		im.paths = append(im.paths, p)
		im.dirs[parentOf(p)] = append(im.dirs[parentOf(p)], baseOf(p))
	}
	tree = append(tree, imgEntry{Path: "small", Dir: true}, imgEntry{Path: "big", Dir: true}, imgEntry{Path: "many", Dir: true})
	for i := 0; i < 18; i++ {
		add(fmt.Sprintf("small/f%02d.txt", i), int64(100+i*47), uint64(1000+i))
	}
	for i := 0; i < 4; i++ {
		add(fmt.Sprintf("big/b%d.bin", i), int64(9000+i*17011), uint64(2000+i))
	}
	for i := 0; i < 4; i++ {
		add(fmt.Sprintf("many/entry-with-a-rather-long-name-%03d.dat", i), int64(i*900), uint64(3000+i))
	}
	for i := 4; i < 150; i++ {
		p := fmt.Sprintf("many/entry-with-a-rather-long-name-%03d.dat", i)
		tree = append(tree, imgEntry{Path: p, Data: []byte{byte(i)}})
		im.dirs["many"] = append(im.dirs["many"], baseOf(p))
	}
	bi, err := buildImage("squashfs", tree, 0, map[string]int64{"bs": bs, "sqcomp": comp})
	if err != nil {
		return nil, err
	}
	im.d, im.size = bi.D, bi.Size
	for _, l := range im.dirs {
		sort.Strings(l)
	}
	c17ImgCache[key] = im
	return im, nil
}

func (p c17) Exec(t *core.Trace) *core.Result {
	res := core.NewResult()
	bs := t.I("bs")
	if bs != 8192 {
		bs = 4096
	}
	im, err := c17BuildImage(bs, t.I("sqcomp")%4)
	if err != nil {
		res.Evals = 1
		res.Sample = "image build failed: " + err.Error()
		res.Probe("build-failed")
		return res
	}
	if len(im.paths) != c17Files {
		panic("c17 image file count")
	}
	nt := int(t.I("tasks"))
	if nt < 1 {
		nt = 1
	}
	if nt > sched.MaxTasks-2 {
		nt = sched.MaxTasks - 2
	}
	d := im.d.Clone()
	d.NoStats = true
	var fsys *squashfs.FileSystem
	if pk, pv, loc, _ := core.Guard(func() { fsys, err = squashfs.Read(d, im.size, 0, bs) }); pk {
		res.V = &core.Violation{Clause: "C17.panic", Trigger: "open", Locus: loc, Detail: fmt.Sprint(pv), OpIndex: -1}
		return res
	}
	if err != nil {
		res.Evals = 1
		res.Sample = "open failed: " + err.Error()
		return res
	}
	cache := t.I("cache")
	switch {
	case cache == 0:
		res.Probe("cache-0")
	case cache == 1:
		res.Probe("cache-1")
	case cache > 0:
		res.Probe("cache-small")
	default:
		res.Probe("cache-default")
	}
	if cache >= 0 {
		fsys.SetCacheSize(int(cache * bs))
	}
	mode := int(t.I("mode") % 3)
	switch mode {
	case 1:
		res.Probe("pct")
	case 2:
		res.Probe("bursts")
	default:
		res.Probe("uniform")
	}
	// per-task operation lists
	type top struct {
		idx        int
		kind       int64
		file, parm int64
	}
	ops := make([][]top, nt+1)
	for i, o := range t.Ops {
		if o.K != "t" || o.A < 0 || o.A > int64(nt) {
			continue
		}
		if o.A == int64(nt) && o.B != 4 {
			continue
		}
		if o.A < int64(nt) && o.B == 4 {
			continue
		}
		ops[o.A] = append(ops[o.A], top{i, o.B % 5, ((o.C % c17Files) + c17Files) % c17Files, o.D})
	}
	var preset []byte
	for _, o := range t.Ops {
		if o.K == "schedule" {
			for _, f := range strings.Split(o.S, ",") {
				if v, e := strconv.Atoi(f); e == nil {
					preset = append(preset, byte(v))
				}
			}
		}
	}
	rng := core.NewRng(core.Mix(uint64(t.I("schedseed")), 0xC17))
	s := sched.New(rng, 400000)
	s.Mode = mode
	s.Preset = preset
	type result struct {
		opIdx int
		bad   string
	}
	results := make([]result, nt+1)
	for i := range results {
		results[i].opIdx = -1
	}
	var wg sync.WaitGroup
	for ti := 0; ti <= nt; ti++ {
		ti := ti
		if len(ops[ti]) == 0 && ti == nt {
			continue
		}
		wg.Add(1)
		s.Go(func() {
			defer wg.Done()
			for _, o := range ops[ti] {
				path := im.paths[o.file]
				want := im.data[path]
				var bad string
				switch o.kind {
				case 0: // ReadFile
					got, err := fsys.ReadFile(path)
					if err != nil {
						bad = fmt.Sprintf("ReadFile(%s): %v", path, err)
					} else if !bytes.Equal(got, want) {
						bad = fmt.Sprintf("ReadFile(%s): %s", path, diffDesc(got, want))
					}
				case 1: // ReadDir
					dir := parentOf(path)
					ents, err := fsys.ReadDir(dir)
					if err != nil {
						bad = fmt.Sprintf("ReadDir(%s): %v", dir, err)
					} else {
						var names []string
						for _, e := range ents {
							names = append(names, e.Name())
						}
						sort.Strings(names)
						if strings.Join(names, "\x00") != strings.Join(im.dirs[dir], "\x00") {
							bad = fmt.Sprintf("ReadDir(%s): %d names, reference has %d", dir, len(names), len(im.dirs[dir]))
						}
					}
				case 2: // Stat
					fi, err := fsys.Stat(path)
					if err != nil {
						bad = fmt.Sprintf("Stat(%s): %v", path, err)
					} else if fi.Size() != int64(len(want)) {
						bad = fmt.Sprintf("Stat(%s): size %d, reference %d", path, fi.Size(), len(want))
					}
				case 3: // Seek + partial Read through an own handle
					var f filesystem.File
					f, err := fsys.OpenFile(path, os.O_RDONLY)
					if err != nil {
						bad = fmt.Sprintf("OpenFile(%s): %v", path, err)
						break
					}
					off := int64(0)
					if len(want) > 0 {
						off = o.parm % int64(len(want))
					}
					n := int64(3000 + o.parm%5000)
					if _, err := f.Seek(off, io.SeekStart); err != nil {
						bad = fmt.Sprintf("Seek(%s,%d): %v", path, off, err)
						break
					}
					buf := make([]byte, n)
					got, err := io.ReadFull(f, buf)
					f.Close()
					end := off + n
					if end > int64(len(want)) {
						end = int64(len(want))
					}
					if err != nil && err != io.ErrUnexpectedEOF && err != io.EOF {
						bad = fmt.Sprintf("Read(%s at %d): %v", path, off, err)
					} else if !bytes.Equal(buf[:got], want[off:end]) {
						bad = fmt.Sprintf("Read(%s at %d, %d bytes): %s", path, off, n, diffDesc(buf[:got], want[off:end]))
					}
				case 4:
					fsys.SetCacheSize(int(o.file * bs))
				}
				if bad != "" && results[ti].opIdx < 0 {
					results[ti] = result{o.idx, bad}
				}
			}
		})
	}
	squashfs.DsimLockHook = s.Lock
	squashfs.DsimUnlockHook = s.Unlock
	squashfs.DsimPointHook = s.Yield // behind every call into the shared (de)compressor
	d.Yield = s.Yield
	lockWaits := 0
	if !raceBuild {
		s.OnQuiescent = func() error {
			n, limit, err := squashfs.DsimLRUCheck(fsys)
			if err != nil {
				return err
			}
			lim := limit
			if lim < 1 {
				lim = 1
			}
			if n > lim {
				return fmt.Errorf("cache holds %d blocks with a limit of %d while no reader is inside the cache", n, limit)
			}
			return nil
		}
	}
	s.Run()
	if s.Deadlock || s.Livelock || s.InvErr != nil || s.PanicVal != nil {
		s.Abort() // unfinished tasks exit at their parking point
	}
	wg.Wait() // happens-before edge from every task's end to the checks below
	squashfs.DsimLockHook, squashfs.DsimUnlockHook, squashfs.DsimPointHook, d.Yield = nil, nil, nil, nil
	_ = lockWaits
	if s.LockWaits > 0 {
		res.ProbeN("lock-wait", int64(s.LockWaits))
	}
	if len(ops[nt]) > 0 && nt > 0 {
		res.Probe("resize-in-flight")
	}
	res.Evals = 1
	res.Steps = int64(s.Steps)
	res.Fault("sched")
	res.FaultN("sched-decisions", int64(s.Steps))
	res.ProbeN("scheduler-states", int64(len(s.StateSet)))
	sched2str := func() string {
		dec := s.Taken()
		parts := make([]string, len(dec))
		for i, b := range dec {
			parts[i] = strconv.Itoa(int(b))
		}
		return strings.Join(parts, ",")
	}
	fail := func(clause, trig, locus, detail string, opIdx int) *core.Result {
		res.V = &core.Violation{Clause: "C17." + clause, Trigger: trig, Locus: locus, Detail: detail, OpIndex: opIdx}
		nt2 := t.Clone()
		var keep []core.Op
		for _, o := range nt2.Ops {
			if o.K != "schedule" {
				keep = append(keep, o)
			}
		}
		nt2.Ops = append(keep, core.Op{K: "schedule", S: sched2str()})
		res.Narrow = nt2
		return res
	}
	cfgc := fmt.Sprintf("cache=%d,tasks=%d", cache, nt)
	switch {
	case s.PanicVal != nil:
		return fail("panic", core.PanicClass(s.PanicVal), simdisk.LocusFromStack([]byte(s.PanicStack)), fmt.Sprintf("task %d panicked: %v (%s)\n%s", s.PanicTask, s.PanicVal, cfgc, firstLinesOf(s.PanicStack, 16)), -1)
	case s.Deadlock:
		return fail("deadlock", "schedule", "filesystem/squashfs.(*lru).get", fmt.Sprintf("no task can proceed (%s): %s", cfgc, s.DeadlockAt), -1)
	case s.Livelock:
		return fail("livelock", "schedule", "filesystem/squashfs.(*lru).get", fmt.Sprintf("step budget of %d exceeded (%s): %s", s.MaxSteps, cfgc, s.DeadlockAt), -1)
	case s.InvErr != nil:
		return fail("lru-invariant", "schedule", "filesystem/squashfs.(*lru)", fmt.Sprintf("%v (%s)", s.InvErr, cfgc), -1)
	}
	for ti, r := range results {
		if r.opIdx >= 0 {
			return fail("wrong-bytes", "schedule", "filesystem/squashfs.(*lru).get", fmt.Sprintf("task %d: %s (%s)", ti, r.bad, cfgc), r.opIdx)
		}
	}
	res.Hashes = append(res.Hashes, s.TraceHash)
	res.DevOps = int64(s.Steps)
	res.Sample = fmt.Sprintf("%s mode=%d steps=%d states=%d | %s", cfgc, mode, s.Steps, len(s.StateSet), t.Summary())
	return res
}
