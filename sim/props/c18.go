package props

import (
	"encoding/binary"
	"fmt"
	"io"
	iofs "io/fs"
	"os"
	"sort"
	"strings"

	"dsim/core"
	"dsim/indep"
	"dsim/simdisk"

	"github.com/diskfs/go-diskfs/filesystem"
)

// C18 — Opening and walking a damaged filesystem image cannot crash.
//
// One run = one valid base image of a seeded kind and the fault family on it: (a) every
// structural field of a per-format field map x boundary values, enumerated; (b) blind pokes of
// 1/2/4/8 bytes at aligned positions inside the metadata the writer produced (file payload
// excluded) - a seeded sample in the quick tier, a larger one in the thorough tier; (c)
// truncation of the device at seeded points. Each damaged image is opened, walked and every file
// read through a bounded reader, under a device-read budget.
type c18 struct{}

func init() { core.Register(c18{}) }

func (c18) ID() string    { return "C18" }
func (c18) Level() string { return "fault_enumeration" }
func (c18) Rule() string {
	return "one evaluation = one damaged image (single corrupted on-disk field, or a truncated device) that is opened with <fs>.Read, walked with fs.WalkDir and whose every file is Stat-ed and read through a 64x-image-size bounded reader; per base image the structural field map (FAT: BPB/FSInfo fields, FAT entries incl. self-links, back-links, out-of-range, directory entries; ext4: superblock, group descriptor, inodes, extent headers and entries, directory entries; ISO9660: volume descriptor fields, root and directory records, path table entries; squashfs: superblock fields, table pointers, metadata block headers) x boundary values (0,1,2,max,max-1,sign bit,+-1,overflow products) is enumerated, plus seeded blind pokes inside the writer's metadata extents and truncations; distinct = distinct (kind, offset, width, value); non-trivial = case whose bytes differ from the base image"
}
func (c18) Assumptions() []string {
	return []string{
		"'bounded time': <= 20000 device reads or 1000x the fault-free walk, whichever is larger, and 10 s per damaged image",
		"'out of proportion': one read request <= 64x image size + 1 MiB; the worker runs under RLIMIT_AS and its death is attributed to the case in progress through the shared-memory marker",
		"returned data is not judged (errors or wrong data are both allowed by the statement); only panics, hangs and disproportionate requests are violations",
	}
}
func (c18) Components() map[string][]string {
	return map[string][]string{
		"real": {"Read/ReadDir/Open/Stat/File.Read of filesystem/fat12, fat16, fat32, ext4, iso9660, squashfs", "codecs used by squashfs"},
		"stub": {"block device incl. truncation (SimDisk)", "stored-byte corruption injector", "field maps from independent readers"},
	}
}
func (c18) ProbeNames() []string {
	ps := []string{"field-fault", "blind-fault", "truncation", "walk-returned-error", "walk-completed"}
	for _, k := range fsKinds {
		ps = append(ps, "kind-"+k)
	}
	return ps
}
func (c18) Budget(tier string) (int, int, int) {
	if tier == "thorough" {
		return 1500, 1 << 30, 600
	}
	return 60, 1 << 30, 180
}

func (c18) Gen(r *core.Rng, tier string, idx int) *core.Trace {
	t := &core.Trace{Cfg: map[string]int64{}, CfgS: map[string]string{}}
	t.CfgS["kind"] = fsKinds[idx%len(fsKinds)]
	t.Cfg["sqcomp"] = int64(r.Intn(4))
	t.Cfg["bs"] = 0
	if strings.HasPrefix(t.CfgS["kind"], "ext4") {
		t.Cfg["bs"] = core.PickOf[int64](r, 1024, 4096)
	}
	t.Cfg["blind"] = 300
	if tier == "thorough" {
		t.Cfg["blind"] = 4000
	}
	t.Cfg["tag"] = int64(r.U64() >> 2)
	return t
}

type c18Field struct {
	name  string
	off   int64 // absolute device offset
	width int
}

func c18Tree(tag uint64) []imgEntry {
	big := core.PatternBytes(tag+9, 70000)
	return []imgEntry{
		{Path: "DIR", Dir: true},
		{Path: "DIR/SUB", Dir: true},
		{Path: "DIR/FILE1.TXT", Data: core.PatternBytes(tag+1, 3000)},
		{Path: "DIR/SUB/DEEP.BIN", Data: core.PatternBytes(tag+2, 12000)},
		{Path: "EMPTY.DAT", Data: nil},
		{Path: "BIG.BIN", Data: big},
		{Path: "A-long-file-name-for-lfn-entries.text", Data: core.PatternBytes(tag+3, 700)},
	}
}

// field maps -------------------------------------------------------------------------------

func u16(b []byte) int64 { return int64(binary.LittleEndian.Uint16(b)) }
func u32(b []byte) int64 { return int64(binary.LittleEndian.Uint32(b)) }

func fatFields(d *simdisk.Disk, start, size int64, ft int) []c18Field {
	var f []c18Field
	add := func(n string, off int64, w int) { f = append(f, c18Field{n, start + off, w}) }
	for _, x := range []struct {
		n string
		o int64
		w int
	}{{"jmp", 0, 2}, {"bytesPerSector", 11, 2}, {"secPerClus", 13, 1}, {"reserved", 14, 2}, {"numFATs", 16, 1}, {"rootEntCnt", 17, 2}, {"totSec16", 19, 2}, {"media", 21, 1}, {"fatSz16", 22, 2}, {"secPerTrk", 24, 2}, {"heads", 26, 2}, {"hidden", 28, 4}, {"totSec32", 32, 4}, {"sig55aa", 510, 2}} {
		add("bpb."+x.n, x.o, x.w)
	}
	if ft == 32 {
		for _, x := range []struct {
			n string
			o int64
			w int
		}{{"fatSz32", 36, 4}, {"extFlags", 40, 2}, {"fsVer", 42, 2}, {"rootClus", 44, 4}, {"fsInfo", 48, 2}, {"bkBootSec", 50, 2}, {"bootSig", 66, 1}} {
			add("bpb32."+x.n, x.o, x.w)
		}
		add("fsinfo.leadSig", 512, 4)
		add("fsinfo.strucSig", 512+484, 4)
		add("fsinfo.free", 512+488, 4)
		add("fsinfo.next", 512+492, 4)
		add("fsinfo.trailSig", 512+508, 4)
	} else {
		add("ebpb.bootSig", 38, 1)
	}
	rep := indep.CheckFAT(d, start, size, ft)
	// FAT entries 0..40 (both copies)
	ew := map[int]int64{12: 0, 16: 2, 32: 4}[ft]
	for c := int64(0); c < 40; c++ {
		if ft == 12 {
			add(fmt.Sprintf("fat[%d]", c), rep.FATStart+c*3/2, 2)
			continue
		}
		add(fmt.Sprintf("fat[%d]", c), rep.FATStart+c*ew, int(ew))
		add(fmt.Sprintf("fat2[%d]", c), rep.FATStart+rep.FATBytes+c*ew, int(ew))
	}
	// directory entries: every 32-byte slot of the first 3 KiB of each directory extent
	for _, e := range rep.MetaExtents {
		if e[0] < start+rep.RootDirOff && !(ft == 32 && e[0] >= start+rep.DataStart) {
			continue
		}
		n := e[1]
		if n > 3072 {
			n = 3072
		}
		for s := int64(0); s+32 <= n; s += 32 {
			b := d.Peek(e[0]+s, 32)
			if b[0] == 0 {
				break
			}
			base := e[0] + s - start
			add("dirent.name0", base, 1)
			add("dirent.attr", base+11, 1)
			if b[11] == 0x0f {
				add("lfn.checksum", base+13, 1)
				continue
			}
			add("dirent.clusHi", base+20, 2)
			add("dirent.clusLo", base+26, 2)
			add("dirent.size", base+28, 4)
		}
	}
	return f
}

func ext4Fields(d *simdisk.Disk, start int64) []c18Field {
	var f []c18Field
	sb := start + 1024
	add := func(n string, off int64, w int) { f = append(f, c18Field{n, off, w}) }
	for _, x := range []struct {
		n string
		o int64
		w int
	}{{"inodesCount", 0, 4}, {"blocksCountLo", 4, 4}, {"freeBlocks", 12, 4}, {"freeInodes", 16, 4}, {"firstDataBlock", 20, 4}, {"logBlockSize", 24, 4}, {"logClusterSize", 28, 4}, {"blocksPerGroup", 32, 4}, {"clustersPerGroup", 36, 4}, {"inodesPerGroup", 40, 4}, {"magic", 56, 2}, {"state", 58, 2}, {"revLevel", 76, 4}, {"firstIno", 84, 4}, {"inodeSize", 88, 2}, {"featureCompat", 92, 4}, {"featureIncompat", 96, 4}, {"featureRoCompat", 100, 4}, {"reservedGdtBlocks", 206, 2}, {"journalInum", 224, 4}, {"descSize", 254, 2}, {"blocksCountHi", 336, 4}, {"logGroupsPerFlex", 372, 1}, {"checksumType", 373, 1}, {"checksum", 1020, 4}} {
		add("sb."+x.n, sb+x.o, x.w)
	}
	s := d.Peek(sb, 1024)
	bs := int64(1024) << uint(u32(s[24:28])&7)
	fdb := u32(s[20:24])
	isz := u16(s[88:90])
	dsz := int64(32)
	if u32(s[96:100])&0x80 != 0 && u16(s[254:256]) >= 32 {
		dsz = u16(s[254:256])
	}
	gdt := start + (fdb+1)*bs
	for g := int64(0); g < 2; g++ {
		for _, x := range []struct {
			n string
			o int64
			w int
		}{{"blockBitmap", 0, 4}, {"inodeBitmap", 4, 4}, {"inodeTable", 8, 4}, {"freeBlocks", 12, 2}, {"freeInodes", 14, 2}, {"flags", 18, 2}, {"checksum", 30, 2}} {
			add(fmt.Sprintf("gd%d.%s", g, x.n), gdt+g*dsz+x.o, x.w)
		}
	}
	it := start + u32(d.Peek(gdt+8, 4))*bs
	if isz < 128 || isz > 1024 {
		isz = 256
	}
	inos := []int64{2}
	for ino := int64(11); ino <= 24; ino++ {
		inos = append(inos, ino)
	}
	for _, ino := range inos {
		base := it + (ino-1)*isz
		b := d.Peek(base, 128)
		if u16(b[0:2]) == 0 {
			continue
		}
		p := fmt.Sprintf("inode%d.", ino)
		for _, x := range []struct {
			n string
			o int64
			w int
		}{{"mode", 0, 2}, {"sizeLo", 4, 4}, {"links", 26, 2}, {"blocksLo", 28, 4}, {"flags", 32, 4}, {"eh.magic", 40, 2}, {"eh.entries", 42, 2}, {"eh.max", 44, 2}, {"eh.depth", 46, 2}, {"ee0.block", 52, 4}, {"ee0.len", 56, 2}, {"ee0.startHi", 58, 2}, {"ee0.startLo", 60, 4}, {"ee1.block", 64, 4}, {"ee1.len", 68, 2}, {"ee1.startLo", 72, 4}, {"sizeHi", 108, 4}, {"checksumLo", 124, 2}} {
			add(p+x.n, base+x.o, x.w)
		}
		// extent tree below the inode: the first leaf block (header and first two entries)
		if u16(b[40:42]) == 0xF30A && u16(b[46:48]) == 1 && u16(b[42:44]) >= 1 {
			leaf := start + (u32(b[56:60])+u16(b[60:62])<<32)*bs
			if lb := d.Peek(leaf, 12); u16(lb[0:2]) == 0xF30A {
				for _, x := range []struct {
					n string
					o int64
					w int
				}{{"ei0.block", 52 - 40 + 40, 4}, {"ei0.leafLo", 56, 4}, {"ei0.leafHi", 60, 2}} {
					add(p+x.n, base+x.o, x.w)
				}
				for _, x := range []struct {
					n string
					o int64
					w int
				}{{"leaf.magic", 0, 2}, {"leaf.entries", 2, 2}, {"leaf.max", 4, 2}, {"leaf.depth", 6, 2}, {"leaf.ee0.block", 12, 4}, {"leaf.ee0.len", 16, 2}, {"leaf.ee0.startHi", 18, 2}, {"leaf.ee0.startLo", 20, 4}, {"leaf.ee1.block", 24, 4}, {"leaf.ee1.len", 28, 2}, {"leaf.ee1.startLo", 32, 4}} {
					add(p+x.n, leaf+x.o, x.w)
				}
			}
		}
		// hash-indexed directory: dx_root of the first block, first two index entries, and the first leaf block's entries
		if u16(b[0:2])&0xF000 == 0x4000 && u32(b[32:36])&0x1000 != 0 && u16(b[40:42]) == 0xF30A && u16(b[46:48]) == 0 {
			blk := start + u32(b[60:64])*bs
			for _, x := range []struct {
				n string
				o int64
				w int
			}{{"dx.dot.recLen", 4, 2}, {"dx.dotdot.recLen", 16, 2}, {"dx.hashVersion", 28, 1}, {"dx.infoLength", 29, 1}, {"dx.indirectLevels", 30, 1}, {"dx.limit", 32, 2}, {"dx.count", 34, 2}, {"dx.block0", 36, 4}, {"dx.hash1", 40, 4}, {"dx.block1", 44, 4}} {
				add(p+x.n, blk+x.o, x.w)
			}
		}
		// directory entries of directory inodes: first block
		if u16(b[0:2])&0xF000 == 0x4000 && u16(b[40:42]) == 0xF30A && u16(b[46:48]) == 0 {
			blk := start + u32(b[60:64])*bs
			off := int64(0)
			for k := 0; k < 8 && off+8 <= bs; k++ {
				e := d.Peek(blk+off, 8)
				rl := u16(e[4:6])
				add(p+"de.inode", blk+off, 4)
				add(p+"de.recLen", blk+off+4, 2)
				add(p+"de.nameLen", blk+off+6, 1)
				add(p+"de.type", blk+off+7, 1)
				if rl < 8 {
					break
				}
				off += rl
			}
		}
	}
	return f
}

func isoFields(d *simdisk.Disk, start int64) []c18Field {
	var f []c18Field
	add := func(n string, off int64, w int) { f = append(f, c18Field{n, off, w}) }
	for vd := int64(0); vd < 4; vd++ {
		base := start + 32768 + vd*2048
		b := d.Peek(base, 2048)
		if string(b[1:6]) != "CD001" {
			break
		}
		p := fmt.Sprintf("vd%d.", vd)
		for _, x := range []struct {
			n string
			o int64
			w int
		}{{"type", 0, 1}, {"id", 1, 4}, {"version", 6, 1}, {"spaceSizeLE", 80, 4}, {"spaceSizeBE", 84, 4}, {"setSize", 120, 2}, {"blockSizeLE", 128, 2}, {"blockSizeBE", 130, 2}, {"pathTableSizeLE", 132, 4}, {"pathTableSizeBE", 136, 4}, {"lPathLoc", 140, 4}, {"mPathLoc", 148, 4}, {"root.len", 156, 1}, {"root.extAttrLen", 157, 1}, {"root.extentLE", 158, 4}, {"root.extentBE", 162, 4}, {"root.dataLenLE", 166, 4}, {"root.dataLenBE", 170, 4}, {"root.flags", 181, 1}, {"root.nameLen", 188, 1}} {
			add(p+x.n, base+x.o, x.w)
		}
		if b[0] != 1 && b[0] != 2 {
			continue
		}
		bsz := u16(b[128:130])
		if bsz < 512 {
			bsz = 2048
		}
		// directory records of the root directory
		root := start + u32(b[158:162])*bsz
		off := int64(0)
		for k := 0; k < 14 && off < 2048; k++ {
			rl := int64(d.Peek(root+off, 1)[0])
			if rl == 0 {
				break
			}
			q := fmt.Sprintf("%sdr%d.", p, k)
			add(q+"len", root+off, 1)
			add(q+"extentLE", root+off+2, 4)
			add(q+"dataLenLE", root+off+10, 4)
			add(q+"flags", root+off+25, 1)
			add(q+"nameLen", root+off+32, 1)
			if rl > 40 {
				add(q+"susp0", root+off+34+int64(d.Peek(root+off+32, 1)[0])|1, 2)
				// the system use entries of the record (Rock Ridge): length, version and first payload byte of
				// each, and the three words of a continuation entry
				nl := int64(d.Peek(root+off+32, 1)[0])
				su := root + off + 33 + nl
				if nl%2 == 0 {
					su++
				}
				for k := 0; k < 8 && su+4 <= root+off+rl; k++ {
					e := d.Peek(su, 4)
					l := int64(e[2])
					if l < 4 || e[0] < 'A' || e[0] > 'Z' {
						break
					}
					sq := fmt.Sprintf("%ssu.%s.", q, string(e[0:2]))
					add(sq+"len", su+2, 1)
					add(sq+"version", su+3, 1)
					if l > 4 {
						add(sq+"byte4", su+4, 1)
					}
					if string(e[0:2]) == "CE" && l >= 28 {
						add(sq+"block", su+4, 4)
						add(sq+"offset", su+12, 4)
						add(sq+"length", su+20, 4)
					}
					su += l
				}
			}
			off += rl
		}
		// path table entries
		pt := start + u32(b[140:144])*bsz
		add(p+"pt0.nameLen", pt, 1)
		add(p+"pt0.extent", pt+2, 4)
		add(p+"pt0.parent", pt+6, 2)
		add(p+"pt1.nameLen", pt+10, 1)
		add(p+"pt1.extent", pt+12, 4)
	}
	return f
}

func squashFields(d *simdisk.Disk, start int64) []c18Field {
	var f []c18Field
	add := func(n string, off int64, w int) { f = append(f, c18Field{n, off, w}) }
	for _, x := range []struct {
		n string
		o int64
		w int
	}{{"magic", 0, 4}, {"inodeCount", 4, 4}, {"modTime", 8, 4}, {"blockSize", 12, 4}, {"fragCount", 16, 4}, {"compression", 20, 2}, {"blockLog", 22, 2}, {"flags", 24, 2}, {"idCount", 26, 2}, {"versionMajor", 28, 2}, {"versionMinor", 30, 2}, {"rootInodeRef", 32, 8}, {"bytesUsed", 40, 8}, {"idTableStart", 48, 8}, {"xattrTableStart", 56, 8}, {"inodeTableStart", 64, 8}, {"dirTableStart", 72, 8}, {"fragTableStart", 80, 8}, {"exportTableStart", 88, 8}} {
		add("sb."+x.n, start+x.o, x.w)
	}
	s := d.Peek(start, 96)
	for _, x := range []struct {
		n string
		o int
	}{{"idTable", 48}, {"inodeTable", 64}, {"dirTable", 72}, {"fragTable", 80}} {
		loc := int64(binary.LittleEndian.Uint64(s[x.o:]))
		if loc <= 0 || loc > 1<<30 {
			continue
		}
		add(x.n+".first8", start+loc, 8)
		add(x.n+".hdr", start+loc, 2)
		add(x.n+".w2", start+loc+2, 2)
		add(x.n+".w4", start+loc+4, 4)
		add(x.n+".w8", start+loc+8, 4)
		add(x.n+".w16", start+loc+16, 4)
	}
	return f
}

// metadataExtents: bytes the writer produced, minus the places where file payload is stored verbatim.
func c18MetaExtents(d *simdisk.Disk, tree []imgEntry) [][2]int64 {
	type iv struct{ a, b int64 }
	var merged []iv
	for _, e := range d.NonZeroExtents() {
		merged = append(merged, iv{e[0], e[0] + e[1]})
	}
	// payload heads: a 24-byte needle of each file locates its verbatim copy
	payload := map[int64]int64{}
	for _, m := range merged {
		if m.b-m.a > 8<<20 {
			continue
		}
		buf := d.Peek(m.a, m.b-m.a)
		for _, e := range tree {
			if len(e.Data) < 64 {
				continue
			}
			if i := indexOf(buf, e.Data[:24]); i >= 0 {
				payload[m.a+int64(i)] = int64(len(e.Data))
			}
		}
	}
	var out [][2]int64
	for _, m := range merged {
		cur := m.a
		var starts []int64
		for s := range payload {
			if s >= m.a && s < m.b {
				starts = append(starts, s)
			}
		}
		sort.Slice(starts, func(i, j int) bool { return starts[i] < starts[j] })
		for _, s := range starts {
			if s > cur {
				out = append(out, [2]int64{cur, s - cur})
			}
			if e := s + payload[s]; e > cur {
				cur = e
			}
		}
		if cur < m.b {
			out = append(out, [2]int64{cur, m.b - cur})
		}
	}
	return out
}

func indexOf(h, n []byte) int {
	return strings.Index(string(h), string(n))
}

// c18NoProgress is raised by the walker when a file handle returns (0, nil) a thousand times in a row.
type c18NoProgress struct{ path string }

// c18Call is the most expensive single library call of a walk.
type c18Call struct {
	What      string
	Sec       float64
	Truncated bool // the walk stopped early because its total CPU allowance was used up
}

const (
	c18WalkBytes = 100 // the walker stops descending once it has read this many times the image size from the device (not a violation: the cost of a walk is calls x directory size; a deterministic measure, unlike CPU time)
	c18CallCPU = 5.0  // s of CPU a single library call may take, plus 1 s per 8 MiB of image
)

// c18Walk opens and walks the image; returns the number of files read, whether an error surfaced and the
// costliest single call. Every library call is timed on its own: the statement bounds each of them, whereas
// the number of calls a walk makes is the walker's own choice.
func c18Walk(bi *builtImage, img *simdisk.Disk, limit int64, walkReads int64) (files int, sawErr bool, worst c18Call) {
	// device reads one library call may issue: four passes over the image in 512-byte pieces plus 20000 (a legitimate
	// call reads one file or resolves one path); a read loop that does not end exceeds it at once. SimDisk raises
	// ErrReadBudget when the count is passed.
	perCall := img.Size()/512*4 + 20000
	timed := func(what string, f func()) {
		t0 := core.CPUSeconds()
		img.ReadBudget = img.St.Reads + perCall
		f()
		if el := core.CPUSeconds() - t0; el > worst.Sec {
			worst.What, worst.Sec = what, el
		}
	}
	var fs filesystem.FileSystem
	var err error
	timed("open", func() { fs, err = bi.Open(img) })
	if err != nil {
		return 0, true, worst
	}
	var walk func(dir string, depth int)
	seen := 0
	spent := func() bool {
		if img.St.BytesRead > c18WalkBytes*img.Size() || (walkReads > 0 && img.St.Reads > walkReads) {
			worst.Truncated = true
			return true
		}
		return false
	}
	walk = func(dir string, depth int) {
		if depth > 24 || seen > 4000 {
			sawErr = true
			return
		}
		var ents []iofs.DirEntry
		var err error
		timed("ReadDir", func() { ents, err = fs.ReadDir(dir) })
		if err != nil {
			sawErr = true
			return
		}
		for _, e := range ents {
			seen++
			if seen > 4000 || spent() {
				return
			}
			name := e.Name()
			if name == "." || name == ".." || name == "" || strings.Contains(name, "/") {
				continue
			}
			p := name
			if dir != "." {
				p = dir + "/" + name
			}
			timed("Info", func() {
				if _, err := e.Info(); err != nil {
					sawErr = true
				}
			})
			if e.IsDir() {
				walk(p, depth+1)
				continue
			}
			timed("Stat", func() {
				if _, err := fs.Stat(p); err != nil {
					sawErr = true
				}
			})
			op := p
			if bi.PathOf("x") == "/x" {
				op = "/" + p
			}
			var f iofs.File
			timed("Open", func() { f, err = fs.Open(op) })
			if err != nil {
				sawErr = true
				continue
			}
			timed("Read", func() {
				// read to the end in pieces; a handle that keeps returning (0, nil) never gets there: a caller that
				// loops until EOF (io.ReadAll, io.Copy) would spin forever
				buf := make([]byte, 32768)
				var total int64
				idle := 0
				for total < limit {
					n, err := f.Read(buf)
					total += int64(n)
					if err != nil {
						if err != io.EOF {
							sawErr = true
						}
						break
					}
					if n == 0 {
						if idle++; idle > 1000 {
							panic(c18NoProgress{p})
						}
					} else {
						idle = 0
					}
				}
			})
			f.Close()
			files++
		}
	}
	walk(".", 0)
	return files, sawErr, worst
}

func (p c18) Exec(t *core.Trace) *core.Result {
	res := core.NewResult()
	kind := t.Sg("kind")
	ok := false
	for _, k := range fsKinds {
		if k == kind {
			ok = true
		}
	}
	if !ok {
		kind = "fat16"
	}
	tree := c18Tree(uint64(t.I("tag")))
	opt := map[string]int64{"bs": t.I("bs"), "sqcomp": t.I("sqcomp"), "log": 1}
	if kind == "ext4-mke2fs" {
		opt["rich"] = 1 // extent leaf block and hash-indexed directory, which only the reference tools produce
	}
	switch {
	case strings.HasPrefix(kind, "fat12"):
		opt["size"] = 2 << 20
	case strings.HasPrefix(kind, "fat16"):
		opt["size"] = 5 << 20
	case strings.HasPrefix(kind, "fat32"):
		opt["size"] = 2 << 20
	case strings.HasPrefix(kind, "ext4"):
		opt["size"] = 17 << 20
		if kind == "ext4" && opt["bs"] == 4096 {
			// the library only creates 4 KiB-block volumes that have a second block group
			opt["size"] = 160 << 20
		}
	default:
		opt["size"] = 4 << 20
	}
	var bi *builtImage
	var berr error
	if pk, _, _, _ := core.Guard(func() { bi, berr = buildImage(kind, tree, 0, opt) }); pk || berr != nil {
		res.Evals = 1
		res.Probe("build-failed")
		res.Sample = fmt.Sprintf("image build failed: %v", berr)
		return res
	}
	res.Probe("kind-" + kind)
	base := bi.D
	imgSize := bi.Size
	fam := kindFamily(kind)
	base.SetSize(imgSize)
	// fault-free baseline
	baseImg := base.Clone()
	baseImg.St = simdisk.Stats{}
	nfiles, _, _ := c18Walk(bi, baseImg, 64*imgSize, 0)
	baseReads := baseImg.St.Reads
	budget := baseReads * 1000
	if budget < 20000 {
		budget = 20000
	}
	baseTrace := t.Clone()
	baseTrace.Ops = nil

	runCase := func(ops []core.Op) *core.Violation {
		core.MarkCase(baseTrace, append(append([]core.Op(nil), ops...), core.Op{K: "walk"}))
		img := base.Clone()
		applyFaultOps(img, 512, ops)
		res.Evals++
		res.Hashes = append(res.Hashes, core.Mix(core.HashStr(kind), core.HashStr(fmt.Sprint(ops))))
		img.St = simdisk.Stats{}
		img.MaxReadAllowed = 64*imgSize + 1<<20
		img.ReadBudget = 0 // set per library call by the walker; the walk as a whole stops descending after `budget` reads
		trig := fam + ":" + faultClass(ops)
		var sawErr bool
		var worst c18Call
		wbi := bi
		if bi.OpenUnsized != nil && core.HashStr(fmt.Sprint(ops))&1 == 1 {
			// every other damaged image is opened without telling its size (size 0, where Read takes that): the
			// bounds then have to come from the device
			c := *bi
			c.Open = bi.OpenUnsized
			wbi = &c
			res.Probe("opened-without-size")
		}
		pk, pv, loc, st := core.Guard(func() { _, sawErr, worst = c18Walk(wbi, img, 64*imgSize, budget) })
		res.DevOps += img.St.Reads
		if pk {
			if np, ok := pv.(c18NoProgress); ok {
				return &core.Violation{Clause: "C18.read-makes-no-progress", Trigger: trig, Locus: "filesystem/" + kindPkg(kind), Detail: fmt.Sprintf("Read of %q returned (0, nil) a thousand times in a row: reading to EOF never ends\nfaults: %v", np.path, ops)}
			}
			if pv == simdisk.ErrReadBudget {
				return &core.Violation{Clause: "C18.read-budget", Trigger: trig, Locus: loc, Detail: fmt.Sprintf("a single library call issued more than %d device reads on a %d-byte image (whole fault-free walk: %d)\nfaults: %v", imgSize/512*4+20000, imgSize, baseReads, ops)}
			}
			return &core.Violation{Clause: "C18.panic", Trigger: trig + ":" + core.PanicClass(pv), Locus: loc, Detail: fmt.Sprintf("panic: %v\nfaults: %v\n%s", pv, ops, firstLinesOf(st, 14))}
		}
		if img.OversizeRead > 0 {
			return &core.Violation{Clause: "C18.disproportionate-read", Trigger: trig, Locus: img.OversizeLocus, Detail: fmt.Sprintf("single read request of %d bytes on a %d-byte image\nfaults: %v", img.OversizeRead, imgSize, ops)}
		}
		// (the allowance grows with the image: a call may have to parse tables as large as the image itself)
		if worst.Sec > c18CallCPU+float64(imgSize)/float64(8<<20) {
			return &core.Violation{Clause: "C18.slow", Trigger: trig, Locus: "filesystem/" + kindPkg(kind), Detail: fmt.Sprintf("a single %s call took %.1f s of CPU time on a %d-byte image\nfaults: %v", worst.What, worst.Sec, imgSize, ops)}
		}
		if worst.Truncated {
			res.Probe("walk-cut-at-read-allowance")
		}
		if sawErr {
			res.Probe("walk-returned-error")
		} else {
			res.Probe("walk-completed")
		}
		return nil
	}
	survey := os.Getenv("C18_SURVEY")
	surveySeen := map[string]bool{}
	report := func(v *core.Violation, ops []core.Op) *core.Result {
		if survey != "" {
			// development aid: list every distinct signature of this base image instead of stopping at the first
			if !surveySeen[v.Sig()] {
				surveySeen[v.Sig()] = true
				if f, err := os.OpenFile(survey, os.O_APPEND|os.O_CREATE|os.O_WRONLY, 0o644); err == nil {
					fmt.Fprintf(f, "%s\t%v\n", v.Sig(), ops)
					f.Close()
				}
			}
			return nil
		}
		res.V = v
		nt := baseTrace.Clone()
		nt.Ops = append(append([]core.Op(nil), ops...), core.Op{K: "walk"})
		v.OpIndex = len(nt.Ops) - 1
		res.Narrow = nt
		return res
	}
	// explicit case (replay)
	if len(t.Ops) > 0 {
		var ops []core.Op
		for _, o := range t.Ops {
			if o.K != "walk" {
				ops = append(ops, o)
			}
		}
		if v := runCase(ops); v != nil {
			return report(v, ops)
		}
		core.ClearCase()
		return res
	}
	// (a) field map
	var fields []c18Field
	switch fam {
	case "fat":
		ft := map[string]int{"fat12": 12, "fat16": 16, "fat32": 32}[kind]
		fields = fatFields(base, 0, imgSize, ft)
	case "ext4":
		fields = ext4Fields(base, 0)
	case "iso9660":
		fields = isoFields(base, 0)
	default:
		fields = squashFields(base, 0)
	}
	for _, f := range fields {
		if f.off < 0 || f.off+int64(f.width) > imgSize {
			continue
		}
		cur := uint64(0)
		b := base.Peek(f.off, 8)
		switch f.width {
		case 1:
			cur = uint64(b[0])
		case 2:
			cur = uint64(binary.LittleEndian.Uint16(b))
		case 4:
			cur = uint64(binary.LittleEndian.Uint32(b))
		case 8:
			cur = binary.LittleEndian.Uint64(b)
		}
		vals := boundaryValues(f.width, cur)
		if strings.HasPrefix(f.name, "fat") && f.width >= 2 {
			// links: self, previous, next+1, first cluster, beyond the end
			vals = append(vals, 2, 3, cur+2, 0xFF7, 0xFFF7, 0x0FFFFFF7, 0x0FFFFFF8)
		}
		for _, v := range vals {
			op := core.Op{K: "poke", A: f.off, B: int64(f.width), C: int64(v), S: f.name}
			res.Fault("flip")
			res.Probe("field-fault")
			if vi := runCase([]core.Op{op}); vi != nil {
				if r := report(vi, []core.Op{op}); r != nil {
					return r
				}
			}
		}
	}
	// (b) blind pokes in metadata extents
	meta := c18MetaExtents(base, tree)
	var total int64
	for _, m := range meta {
		total += m[1]
	}
	rng := core.NewRng(core.Mix(t.Seed, 0xC18))
	nb := t.I("blind")
	if nb > 20000 {
		nb = 20000
	}
	for i := int64(0); i < nb && total > 0; i++ {
		pos := rng.Int63n(total)
		var off int64
		for _, m := range meta {
			if pos < m[1] {
				off = m[0] + pos
				break
			}
			pos -= m[1]
		}
		w := core.PickOf(rng, 1, 2, 4, 8)
		off = off / int64(w) * int64(w)
		if off+int64(w) > imgSize {
			continue
		}
		cur := binary.LittleEndian.Uint64(base.Peek(off, 8))
		vals := boundaryValues(w, cur&(1<<(8*uint(w))-1|map[bool]uint64{true: ^uint64(0), false: 0}[w == 8]))
		v := vals[rng.Intn(len(vals))]
		op := core.Op{K: "poke", A: off, B: int64(w), C: int64(v), S: "blind"}
		res.Fault("flip")
		res.Probe("blind-fault")
		if vi := runCase([]core.Op{op}); vi != nil {
			if r := report(vi, []core.Op{op}); r != nil {
				return r
			}
		}
	}
	// (c) truncation
	cuts := []int64{0, 1, 511, 512, 1023, 1024, 2048, 4096, 32768, 32768 + 2048, 65536, imgSize / 2, imgSize - 1}
	for _, m := range meta {
		cuts = append(cuts, m[0], m[0]+m[1]/2)
	}
	for _, c := range cuts {
		if c < 0 || c >= imgSize {
			continue
		}
		op := core.Op{K: "trunc", A: c}
		res.Fault("trunc")
		res.Probe("truncation")
		if vi := runCase([]core.Op{op}); vi != nil {
			if r := report(vi, []core.Op{op}); r != nil {
				return r
			}
		}
	}
	core.ClearCase()
	res.Steps = res.Evals
	res.Sample = fmt.Sprintf("%s image %d bytes, %d files, %d fields, metadata %d bytes in %d extents; %d damaged images walked (baseline %d device reads)", kind, imgSize, nfiles, len(fields), total, len(meta), res.Evals, baseReads)
	return res
}
