package props

import (
	"bytes"
	"fmt"
	"os"
	"path/filepath"
	"strings"

	"dsim/core"
	"dsim/simdisk"

	diskfs "github.com/diskfs/go-diskfs"
	"github.com/diskfs/go-diskfs/disk"
	"github.com/diskfs/go-diskfs/filesystem"
	"github.com/diskfs/go-diskfs/filesystem/iso9660"
	"github.com/diskfs/go-diskfs/filesystem/squashfs"
	"github.com/diskfs/go-diskfs/partition"
)

// C12 — Existing filesystems and tables are recognised as what they are.
type c12 struct{}

func init() { core.Register(c12{}) }

func (c12) ID() string    { return "C12" }
func (c12) Level() string { return "exploration" }
func (c12) Rule() string {
	return "one evaluation = one history of 0..3 Disk.CreateFilesystem calls (+Finalize for ISO9660/squashfs, + one file) of seeded types on the same range (whole disk, GPT partition or MBR partition; sizes around the FAT12/16/32 thresholds and cluster-size table boundaries; stale bytes of the previous filesystem left in place), followed by a fresh diskfs.OpenBackend on the durable bytes: GetPartitionTable().Type(), GetFilesystem(n).Type(), Label() and file contents must be those of the last filesystem created, a blank range must yield an error; distinct = distinct (layout, type sequence, size class); non-trivial = at least one accepted CreateFilesystem"
}
func (c12) Assumptions() []string {
	return []string{
		"labels are compared for FAT and ext4 (CreateFilesystem passes VolumeLabel to them); for ISO9660 the VolumeIdentifier given to Finalize; squashfs has no label",
		"a CreateFilesystem call that is refused (size not suitable for the type) leaves the previous filesystem as the expected one",
	}
}
func (c12) Components() map[string][]string {
	return map[string][]string{
		"real": {"disk.Disk.CreateFilesystem/GetFilesystem/GetPartitionTable", "diskfs.OpenBackend", "partition.Read", "all six filesystem packages' Create/Read"},
		"stub": {"block device (SimDisk, sparse)", "host scratch directory as ISO/squashfs workspace"},
	}
}
func (c12) ProbeNames() []string {
	return []string{"layout-whole", "layout-gpt", "layout-mbr", "blank", "over-stale", "type-fat12", "type-fat16", "type-fat32", "type-ext4", "type-iso9660", "type-squashfs", "create-refused", "boundary-sweep", "physical-4096-logical-512", "partition-beyond-4GiB"}
}
func (c12) Budget(tier string) (int, int, int) {
	if tier == "thorough" {
		return 900, 1 << 30, 300
	}
	return 45, 1 << 30, 120
}

var c12Types = []string{"fat12", "fat16", "fat32", "ext4", "iso9660", "squashfs"}
var c12Sizes = []int64{256 << 10, 1 << 20, 2 << 20, 4 << 20, 4300 << 10, 8 << 20, 8<<20 - 512, 16 << 20, 32 << 20, 33 << 20, 64 << 20, 127 << 20, 129 << 20, 260 << 20, 261 << 20, 512 << 20}

func (c12) Gen(r *core.Rng, tier string, idx int) *core.Trace {
	t := &core.Trace{Cfg: map[string]int64{}, CfgS: map[string]string{}}
	t.Cfg["layout"] = int64(r.PickW(40, 30, 30))
	t.Cfg["lss"] = core.PickOf[int64](r, 512, 512, 512, 2048, 4096)
	t.Cfg["size"] = c12Sizes[r.Intn(len(c12Sizes))] + 512*r.Range(0, 3)
	t.Cfg["pss4k"] = int64(r.PickW(70, 30))
	t.Cfg["gptidx"] = core.PickOf[int64](r, 1, 1, 2, 3, 5, 128) // GPT layout: the slot of the (only) partition - tables with gaps
	t.Cfg["farpart"] = int64(r.PickW(80, 10, 10))
	if r.Chance(25) {
		// FAT type boundary sweep: consecutive sector counts around the sizes at which the cluster count crosses
		// 4085 (FAT12|FAT16) and 65525 (FAT16|FAT32), for every plausible sectors-per-cluster value
		thr := core.PickOf[int64](r, 4085, 65525)
		spc := core.PickOf[int64](r, 1, 2, 4, 8, 16, 32, 64)
		win := int64(200)
		if thr == 65525 {
			win = 1300
		}
		t.Ops = []core.Op{{K: "sweep", P: core.PickOf(r, "fat12", "fat16", "fat32", "fat16"), A: thr*spc + r.Range(0, win+spc), B: 48}}
		if thr == 65525 && spc > 8 {
			t.Ops[0].B = 12 // large sparse volumes: fewer per run
		}
		return t
	}
	n := r.PickW(8, 42, 35, 15)
	for i := 0; i < n; i++ {
		ty := c12Types[r.Intn(len(c12Types))]
		t.Ops = append(t.Ops, core.Op{K: "mkfs", P: ty, S: core.PickOf(r, "LBL", "My Label", "X", "ELEVENCHARS", "", "SIXTEEN_CHARS_16", "FIFTEEN_CHARS_1"), A: int64(r.U64() >> 2), B: core.PickOf[int64](r, 2048, 4096)})
	}
	return t
}

func typeName(ft filesystem.Type) string {
	switch ft {
	case filesystem.TypeFat12:
		return "fat12"
	case filesystem.TypeFat16:
		return "fat16"
	case filesystem.TypeFat32:
		return "fat32"
	case filesystem.TypeExt4:
		return "ext4"
	case filesystem.TypeISO9660:
		return "iso9660"
	case filesystem.TypeSquashfs:
		return "squashfs"
	}
	return fmt.Sprintf("type%d", int(ft))
}

func fsTypeOf(name string) filesystem.Type {
	switch name {
	case "fat12":
		return filesystem.TypeFat12
	case "fat16":
		return filesystem.TypeFat16
	case "fat32":
		return filesystem.TypeFat32
	case "ext4":
		return filesystem.TypeExt4
	case "iso9660":
		return filesystem.TypeISO9660
	}
	return filesystem.TypeSquashfs
}

// c12Sweep creates a FAT filesystem of the given type on whole devices of consecutive sector counts and demands
// that each one the library agreed to create is recognised as that type again and holds the file written to it.
func c12Sweep(t *core.Trace, res *core.Result, o core.Op) *core.Result {
	ty := o.P
	if ty != "fat12" && ty != "fat16" && ty != "fat32" {
		return res
	}
	n := o.B
	if n < 1 {
		n = 1
	}
	if n > 64 {
		n = 64
	}
	content := core.PatternBytes(uint64(o.A), 1500)
	for k := int64(0); k < n; k++ {
		sectors := o.A + k
		if sectors < 64 || sectors > 6<<20 {
			continue
		}
		size := sectors * 512
		d := simdisk.New(size)
		d.NoStats = true
		dk := &disk.Disk{Backend: d, Size: size, LogicalBlocksize: 512, PhysicalBlocksize: 512, DefaultBlocks: true}
		var fs filesystem.FileSystem
		var err error
		trig := "sweep(" + ty + ")"
		fail := func(clause, locus, detail string) *core.Result {
			nt := t.Clone()
			nt.Ops = []core.Op{{K: "sweep", P: ty, A: sectors, B: 1}}
			res.Narrow = nt
			res.V = &core.Violation{Clause: "C12." + clause, Trigger: trig, Locus: locus, Detail: detail, OpIndex: 0}
			return res
		}
		pk, pv, loc, _ := core.Guard(func() {
			fs, err = dk.CreateFilesystem(disk.FilesystemSpec{Partition: 0, FSType: fsTypeOf(ty), VolumeLabel: "SWEEP"})
			if err != nil {
				return
			}
			var f filesystem.File
			f, err = fs.OpenFile("/HELLO.TXT", os.O_CREATE|os.O_RDWR)
			if err != nil {
				return
			}
			_, err = f.Write(content)
			f.Close()
		})
		res.Evals++
		res.Steps++
		if pk {
			return fail("panic", loc, fmt.Sprintf("%d sectors: %v", sectors, pv))
		}
		if err != nil {
			res.Probe("create-refused")
			continue
		}
		res.Probe("type-" + ty)
		res.Probe("boundary-sweep")
		res.Hashes = append(res.Hashes, core.Mix(core.HashStr(ty), uint64(sectors)))
		var dk2 *disk.Disk
		var fs2 filesystem.FileSystem
		if pk, pv, loc, _ := core.Guard(func() {
			dk2, err = diskfs.OpenBackend(d.Clone(), diskfs.WithSectorSize(diskfs.SectorSize(512)))
			if err == nil {
				fs2, err = dk2.GetFilesystem(0)
			}
		}); pk {
			return fail("panic", loc, fmt.Sprintf("%d sectors: %v", sectors, pv))
		}
		if err != nil {
			return fail("not-recognised", "disk.(*Disk).GetFilesystem", fmt.Sprintf("%s created on a device of %d sectors (%d bytes) is not recognised: %v", ty, sectors, size, err))
		}
		if got := typeName(fs2.Type()); got != ty {
			return fail("wrong-type", "disk.(*Disk).GetFilesystem", fmt.Sprintf("%s created on a device of %d sectors is reported as %s", ty, sectors, got))
		}
		var data []byte
		if pk, pv, loc, _ := core.Guard(func() { data, err = fs2.ReadFile("/HELLO.TXT") }); pk {
			return fail("panic", loc, fmt.Sprintf("%d sectors: readfile: %v", sectors, pv))
		}
		if err != nil || !bytes.Equal(data, content) {
			return fail("contents", "filesystem.ReadFile", fmt.Sprintf("%s on %d sectors: ReadFile err=%v, %s", ty, sectors, err, diffDesc(data, content)))
		}
	}
	res.Sample = fmt.Sprintf("sweep %s from %d sectors, %d sizes", ty, o.A, n)
	return res
}

func (p c12) Exec(t *core.Trace) *core.Result {
	res := core.NewResult()
	if len(t.Ops) > 0 && t.Ops[0].K == "sweep" {
		return c12Sweep(t, res, t.Ops[0])
	}
	layout := t.I("layout") % 3
	size := t.I("size")
	if size < 64<<10 {
		size = 64 << 10
	}
	if size > 1<<30 {
		size = 1 << 30
	}
	lss := t.I("lss")
	if lss != 2048 && lss != 4096 {
		lss = 512
	}
	size = size / 4096 * 4096
	partStart := int64(1 << 20)
	if fp := t.I("farpart"); fp == 1 || fp == 2 {
		// the partition begins at or just beyond 4 GiB from the start of the disk
		partStart = 4<<30 + (fp-1)<<20
		res.Probe("partition-beyond-4GiB")
	}
	devSize := size
	part := 0
	if layout != 0 {
		devSize = partStart + size + 1<<20
		part = 1
	}
	if layout == 1 {
		if gi := int(t.I("gptidx")); gi >= 1 && gi <= 128 {
			part = gi
		}
	}
	d := simdisk.New(devSize)
	dk := &disk.Disk{Backend: d, Size: devSize, LogicalBlocksize: lss, PhysicalBlocksize: lss, DefaultBlocks: lss == 512}
	wantTable := ""
	switch layout {
	case 0:
		res.Probe("layout-whole")
	case 1:
		res.Probe("layout-gpt")
		wantTable = "gpt"
		sp := gptSpec{GUID: "AAAAAAAA-BBBB-CCCC-DDDD-EEEEEEEEEEEE", Parts: []gptPart{{Index: part, Start: uint64(partStart / lss), End: uint64((partStart+size)/lss) - 1, Type: knownTypes[1], GUID: "AAAAAAAA-BBBB-CCCC-DDDD-000000000001", Name: "p1"}}}
		if err := dk.Partition(sp.table(int(lss), int(lss))); err != nil {
			res.Evals = 1
			return res
		}
	case 2:
		res.Probe("layout-mbr")
		wantTable = "mbr"
		sp := mbrSpec{Parts: []mbrPart{{Type: 0x83, Start: uint32(partStart / lss), Size: uint32(size / lss)}}}
		if err := dk.Partition(sp.table(int(lss), int(lss))); err != nil {
			res.Evals = 1
			return res
		}
	}
	fail := func(i int, clause, trig, locus, detail string) *core.Result {
		res.V = &core.Violation{Clause: "C12." + clause, Trigger: trig, Locus: locus, Detail: detail, OpIndex: i}
		return res
	}
	wantType, wantLabel := "", ""
	var wantContent []byte
	hist := core.Mix(uint64(layout), uint64(size>>18), uint64(lss))
	prev := ""
	for i, o := range t.Ops {
		if o.K != "mkfs" {
			continue
		}
		ty := o.P
		okTy := false
		for _, k := range c12Types {
			if k == ty {
				okTy = true
			}
		}
		if !okTy {
			continue
		}
		res.Steps++
		spec := disk.FilesystemSpec{Partition: part, FSType: fsTypeOf(ty), VolumeLabel: o.S}
		var ws string
		if ty == "iso9660" {
			ws = newScratchSub("c12-iso")
			spec.WorkDir = ws
		}
		scratch()
		content := core.PatternBytes(uint64(o.A)+uint64(i), 1500+int64(i)*7)
		var fs filesystem.FileSystem
		var err error
		trig := "mkfs(" + ty + ")"
		if prev != "" {
			trig = "mkfs(" + ty + "-over-" + prev + ")"
			res.Probe("over-stale")
		}
		// on an unpartitioned 512-byte-sector image an ISO/squashfs is created through a Disk opened
		// with the sector size those formats need (as the project's examples do)
		cdk := dk
		if layout == 0 && lss == 512 && (ty == "iso9660" || ty == "squashfs") && (o.B == 2048 || o.B == 4096) {
			cdk = &disk.Disk{Backend: d, Size: devSize, LogicalBlocksize: o.B, PhysicalBlocksize: o.B}
		}
		pk, pv, loc, _ := core.Guard(func() {
			fs, err = cdk.CreateFilesystem(spec)
			if err != nil {
				return
			}
			switch ty {
			case "iso9660":
				if err = os.WriteFile(filepath.Join(ws, "HELLO.TXT"), content, 0o644); err != nil {
					return
				}
				err = fs.(*iso9660.FileSystem).Finalize(iso9660.FinalizeOptions{VolumeIdentifier: "ISOVOL", RockRidge: o.A%2 == 0})
			case "squashfs":
				sq := fs.(*squashfs.FileSystem)
				defer os.RemoveAll(sq.Workspace())
				if err = os.WriteFile(filepath.Join(sq.Workspace(), "HELLO.TXT"), content, 0o644); err != nil {
					return
				}
				err = sq.Finalize(squashfs.FinalizeOptions{})
			default:
				name := "/HELLO.TXT"
				if ty == "ext4" {
					name = "HELLO.TXT"
				}
				var f filesystem.File
				f, err = fs.OpenFile(name, os.O_CREATE|os.O_RDWR)
				if err != nil {
					return
				}
				_, err = f.Write(content)
				f.Close()
			}
		})
		if ws != "" {
			os.RemoveAll(ws)
		}
		if pk {
			return fail(i, "panic", trig+":"+core.PanicClass(pv), loc, fmt.Sprint(pv))
		}
		if err != nil {
			res.Probe("create-refused")
			if os.Getenv("C12_DEBUG") != "" {
				fmt.Println("refused:", ty, err)
			}
			hist = core.Mix(hist, core.HashStr(ty), 1)
			if fs != nil {
				// created but population/finalize failed: the range is in an unspecified state
				wantType = "?"
			}
			continue
		}
		res.Probe("type-" + ty)
		hist = core.Mix(hist, core.HashStr(ty), 0)
		wantType, wantContent = ty, content
		switch ty {
		case "fat12", "fat16", "fat32", "ext4":
			wantLabel = o.S
		case "iso9660":
			wantLabel = "ISOVOL"
		default:
			wantLabel = ""
		}
		prev = ty
	}
	res.Evals = 1
	if wantType == "?" {
		res.Sample = "population of the last filesystem failed; nothing to compare"
		return res
	}
	// fresh open from the durable bytes
	img := d.Clone()
	var dk2 *disk.Disk
	var err error
	if pk, pv, loc, _ := core.Guard(func() { dk2, err = diskfs.OpenBackend(img, diskfs.WithSectorSize(diskfs.SectorSize(lss))) }); pk {
		return fail(len(t.Ops)-1, "panic", "OpenBackend:"+core.PanicClass(pv), loc, fmt.Sprint(pv))
	}
	if err == nil && lss == 512 && layout != 0 && t.I("pss4k") == 1 {
		// a device with 512-byte logical and 4096-byte physical sectors (512e): the table is read with the two
		// sizes as they are
		dk2 = &disk.Disk{Backend: img, Size: devSize, LogicalBlocksize: 512, PhysicalBlocksize: 4096, DefaultBlocks: false}
		res.Probe("physical-4096-logical-512")
	}
	if err != nil {
		return fail(len(t.Ops)-1, "open", "OpenBackend", "diskfs.OpenBackend", err.Error())
	}
	lastTrig := "recognise(" + wantType + ")"
	if prev != "" && res.Probes["over-stale"] > 0 {
		lastTrig = "recognise(" + wantType + ",stale-bytes)"
	}
	if wantType == "" {
		lastTrig = "recognise(blank)"
	}
	if wantTable != "" {
		var tb partition.Table
		if pk, pv, loc, _ := core.Guard(func() { tb, err = dk2.GetPartitionTable() }); pk {
			return fail(len(t.Ops)-1, "panic", "GetPartitionTable:"+core.PanicClass(pv), loc, fmt.Sprint(pv))
		}
		if err != nil || tb.Type() != wantTable {
			return fail(len(t.Ops)-1, "table-type", "table("+wantTable+")", "partition.Read", fmt.Sprintf("disk partitioned as %s is reported as type=%s err=%v", wantTable, typeOf(tb), err))
		}
	}
	var fs2 filesystem.FileSystem
	if pk, pv, loc, _ := core.Guard(func() { fs2, err = dk2.GetFilesystem(part) }); pk {
		return fail(len(t.Ops)-1, "panic", lastTrig+":"+core.PanicClass(pv), loc, fmt.Sprint(pv))
	}
	if wantType == "" {
		res.Probe("blank")
		if err == nil {
			return fail(len(t.Ops)-1, "blank-recognised", lastTrig, "disk.(*Disk).GetFilesystem", fmt.Sprintf("a blank range is reported as a %s filesystem", typeName(fs2.Type())))
		}
		res.Hashes = append(res.Hashes, hist)
		return res
	}
	if err != nil {
		return fail(len(t.Ops)-1, "not-recognised", lastTrig, "disk.(*Disk).GetFilesystem", fmt.Sprintf("filesystem created as %s (size %d, layout %d) is not recognised: %v", wantType, size, layout, err))
	}
	if got := typeName(fs2.Type()); got != wantType {
		return fail(len(t.Ops)-1, "wrong-type", lastTrig, "disk.(*Disk).GetFilesystem", fmt.Sprintf("filesystem created as %s (size %d, layout %d, history %s) is reported as %s", wantType, size, layout, t.Summary(), got))
	}
	var label string
	core.Guard(func() { label = fs2.Label() })
	if wantType != "squashfs" {
		wl := strings.TrimSpace(wantLabel)
		if strings.HasPrefix(wantType, "fat") {
			if wl == "" {
				wl = "NO NAME"
			}
			if len(wl) > 11 {
				wl = wl[:11]
			}
		}
		if wantType == "ext4" && wl == "" {
			wl = strings.TrimSpace(label) // an empty ext4 label selects the library's default name
		}
		if strings.Trim(label, " \x00") != wl {
			return fail(len(t.Ops)-1, "label", lastTrig, "filesystem.Label", fmt.Sprintf("%s created with label %q reports %q", wantType, wantLabel, label))
		}
	}
	name := "HELLO.TXT"
	if strings.HasPrefix(wantType, "fat") {
		name = "/HELLO.TXT"
	}
	var data []byte
	if pk, pv, loc, _ := core.Guard(func() { data, err = fs2.ReadFile(name) }); pk {
		return fail(len(t.Ops)-1, "panic", lastTrig+":readfile:"+core.PanicClass(pv), loc, fmt.Sprint(pv))
	}
	if err != nil || !bytes.Equal(data, wantContent) {
		return fail(len(t.Ops)-1, "contents", lastTrig, "filesystem.ReadFile", fmt.Sprintf("%s: ReadFile(%s) err=%v, %s", wantType, name, err, diffDesc(data, wantContent)))
	}
	res.Hashes = append(res.Hashes, hist)
	res.DevOps = d.St.Reads + d.St.Writes
	res.Sample = fmt.Sprintf("layout=%d size=%d %s -> %s", layout, size, t.Summary(), wantType)
	return res
}
