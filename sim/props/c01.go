package props

import "dsim/core"

// C01 — FAT12/16/32 behave like a plain tree of named byte strings.
type c01 struct{}

func init() { core.Register(c01{}) }

func (c01) ID() string    { return "C01" }
func (c01) Level() string { return "exploration" }
func (c01) Rule() string {
	return "one evaluation = one seeded history (1..40 quick / 1..160 thorough operations: mkdir, create, write at start/inside/EOF/EOF+gap, append, truncating open, rename incl. rename-over, remove of files/empty/non-empty dirs, fill-until-refused/empty/refill cycles, held handles, reopen) on a FAT12/16/32 volume of seeded size at a seeded start offset inside a larger noise-filled simulated device, compared after every operation (live, through the writing handle, and after re-opening from the bytes) with an in-memory tree; distinct = distinct sequences of (operation class, accepted/refused); non-trivial = at least one accepted mutation followed by a comparison"
}
func (c01) Assumptions() []string {
	return []string{
		"names come from the legal-name domain of DESIGN §5 C01 (no numeric-tail aliases, no names differing only in case, no trailing dots/spaces)",
		"operations whose preconditions fail in the reference tree (missing parent, rename of a missing file, mkdir over a file) are skipped, not issued",
		"after a refused call the target path is re-synchronised from what the library reports if that is self-consistent, otherwise excluded; every other path must be unchanged",
		"device EIO is not injected (no property speaks of it); 'full' is produced by the workload",
	}
}
func (c01) Components() map[string][]string {
	return map[string][]string{
		"real": {"filesystem/fat12, fat16, fat32 (Create, Read, Mkdir, OpenFile, File.Read/Write/Seek, Rename, Remove, ReadDir, ReadFile)"},
		"stub": {"block device (SimDisk: sparse, start offsets up to 5 GiB, noise in and around the range)", "reference tree model"},
	}
}
func (c01) ProbeNames() []string {
	return []string{"fat12", "fat16", "fat32", "op-refused", "fill-reached-refusal", "empty", "empty-by-truncate", "reopen", "held-handle", "start-beyond-4GiB"}
}
func (c01) Budget(tier string) (int, int, int) {
	if tier == "thorough" {
		return 1500, 1 << 30, 600
	}
	return 50, 1 << 30, 120
}
func (c01) Gen(r *core.Rng, tier string, idx int) *core.Trace { return genFatHistory(r, tier, idx) }
func (c01) Exec(t *core.Trace) *core.Result {
	res, _ := execFatHistory(t, "C01", false)
	return res
}
