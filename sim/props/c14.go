package props

import (
	"encoding/hex"
	"fmt"
	"os"
	"os/exec"
	"path/filepath"
	"strings"
	"time"

	"dsim/core"
	"dsim/simdisk"

	"github.com/diskfs/go-diskfs/partition"
	"github.com/google/uuid"
)

// C14 — Reproducible mode yields byte-identical images.
//
// One run = one seeded FAT history (or GPT/MBR table) executed in two separate OS processes
// (the c14child test binary) under testing/synctest's fake clock: execution A at fake time T0
// and start offset s0, execution B after a seeded initial clock jump, with further jumps between
// operations, at start offset s1, with other noise outside the range and another entropy seed.
// The canonical hash of the volume range must be equal. A control execution in
// non-reproducible mode must differ, which proves that the clock fault reaches the code.
type c14 struct{}

func init() { core.Register(c14{}) }

func (c14) ID() string    { return "C14" }
func (c14) Level() string { return "exploration" }
func (c14) Rule() string {
	return "one evaluation = one (history, SOURCE_DATE_EPOCH, geometry) executed twice in separate processes under a fake clock with seeded jumps (seconds to decades) before and between operations and different start offsets / surrounding noise / entropy, compared by canonical hash of the volume range; plus GPT (GUIDs given) and MBR tables written twice; distinct = distinct (history hash, epoch class, offset pair); non-trivial = history with at least one accepted mutation"
}
func (c14) Assumptions() []string {
	return []string{
		"bytes inside the volume range before Create are zero in both executions (the statement does not promise that Create erases a previous owner's data)",
		"the fake clock is testing/synctest's: it starts at 2000-01-01T00:00:00Z and moves only by the injected jumps",
	}
}
func (c14) Components() map[string][]string {
	return map[string][]string{
		"real": {"filesystem/fat12, fat16, fat32 in reproducible mode", "util/timestamp", "partition/gpt, partition/mbr", "Go runtime time package inside a synctest bubble"},
		"stub": {"wall clock (testing/synctest fake clock with injected jumps)", "process boundary (two child processes)", "SOURCE_DATE_EPOCH environment", "uuid entropy (seeded reader)", "block device (SimDisk)"},
	}
}
func (c14) ProbeNames() []string {
	return []string{"clock-jump", "control-differs", "fat", "table", "epoch-pre-1980", "epoch-odd", "epoch-zero", "different-start", "read-then-rewrite"}
}
func (c14) Budget(tier string) (int, int, int) {
	if tier == "thorough" {
		return 900, 1 << 30, 300
	}
	return 45, 1 << 30, 120
}

func (c14) Gen(r *core.Rng, tier string, idx int) *core.Trace {
	var t *core.Trace
	if idx%5 == 4 {
		t = genTableHistory(r, tier, idx)
		t.CfgS["wl"] = "table"
		// GUIDs must be given for the GPT clause
		for i := range t.Ops {
			if t.Ops[i].K == "gpt" && t.Ops[i].S == "" {
				t.Ops[i].S = genGUID(r)
			}
			if t.Ops[i].K == "gp" && strings.HasPrefix(t.Ops[i].S, "|") {
				t.Ops[i].S = genGUID(r) + t.Ops[i].S
			}
		}
		if t.I("size") > 1<<30 {
			t.Cfg["size"] = 64 << 20
		}
	} else {
		t = genFatHistory(r, tier, idx)
		t.CfgS["wl"] = "fat"
		if t.I("size") > 64<<20 {
			t.Cfg["size"] = r.Range(1, 8) << 20
			if t.I("ftype") == 16 {
				t.Cfg["size"] = r.Range(4300, 9000) << 10
			}
		}
	}
	switch r.PickW(15, 15, 20, 50) {
	case 0:
		t.Cfg["sde"] = 0
	case 1:
		t.Cfg["sde"] = r.Range(1, 315532799) // before 1980-01-01
	case 2:
		t.Cfg["sde"] = 1700000001 + 2*r.Range(0, 1000) // odd seconds
	case 3:
		t.Cfg["sde"] = r.Range(315532800, 4000000000)
	}
	t.Cfg["startB"] = core.PickOf[int64](r, 0, 512, 4096, 1<<20, 5<<30)
	t.Cfg["jump0"] = core.PickOf[int64](r, 1, 59, 3600, 86400*14, 86400*365*7, 86400*365*40)
	// the second process also runs in another local time zone (quarter hours east of UTC)
	t.Cfg["tzB"] = core.PickOf[int64](r, 0, -14, 23, -32, 52, r.Range(-48, 56))
	t.Cfg["jumpEvery"] = r.Range(1, 5)
	t.Cfg["jumpSec"] = core.PickOf[int64](r, 1, 2, 61, 86400, 86400*400)
	return t
}

// canonHash hashes the bytes of [off, off+n) in a form that does not depend on off.
func canonHash(d *simdisk.Disk, off, n int64) string {
	h := d.HashRangeCanonical(off, n)
	return hex.EncodeToString(h[:])
}

// RunC14Child executes one side of a C14 comparison (called inside the synctest bubble of the
// child process) and returns a line "HASH <hex> <info>".
func RunC14Child(traceFile, mode string) string {
	t, err := core.LoadTrace(traceFile)
	if err != nil {
		return "ERROR " + err.Error()
	}
	os.Setenv("SOURCE_DATE_EPOCH", fmt.Sprint(t.I("sde")))
	repro := true
	if mode == "C" {
		repro = false
		os.Unsetenv("SOURCE_DATE_EPOCH")
	}
	jumps := 0
	if tz := t.I("tzB"); mode != "A" && tz != 0 && tz >= -48 && tz <= 56 {
		time.Local = time.FixedZone("SIM", int(tz)*900)
	}
	if mode != "A" {
		time.Sleep(time.Duration(t.I("jump0")) * time.Second)
		jumps++
	} else {
		t.Cfg["jump0"] = 0
	}
	every := t.I("jumpEvery")
	if every < 1 {
		every = 1
	}
	t0 := time.Now()
	if t.Sg("wl") == "table" {
		uuid.SetRand(seededReader{core.NewRng(core.Mix(t.Seed, core.HashStr(mode)))})
		size, lss := t.I("size"), t.I("lss")
		if lss != 4096 {
			lss = 512
		}
		if size < 70*lss {
			size = 70 * lss
		}
		d := simdisk.New(size)
		var out []string
		kinds := map[string]bool{}
		lastOK := false
		for i := 0; i < len(t.Ops); i++ {
			o := t.Ops[i]
			if o.K != "gpt" && o.K != "mbr" {
				continue
			}
			j := i + 1
			for j < len(t.Ops) && (t.Ops[j].K == "gp" || t.Ops[j].K == "mp") {
				j++
			}
			if mode != "A" {
				time.Sleep(time.Duration(t.I("jumpSec")) * time.Second)
				jumps++
			}
			var err error
			if o.K == "gpt" {
				err = gptFromOps(t.Ops[i+1:j], "gp", o.S).table(int(lss), int(lss)).Write(d, size)
			} else {
				err = mbrFromOps(t.Ops[i+1:j], "mp").table(int(lss), int(lss)).Write(d, size)
			}
			out = append(out, fmt.Sprintf("%v", err == nil))
			if err == nil {
				kinds[o.K] = true
				lastOK = true
			} else {
				lastOK = false
			}
		}
		// "rewriting a table that was read from disk changes nothing": boot code and a disk signature are put into
		// LBA 0 after the table was written (as installing a boot loader does), the table is read and written back
		rewrite := "n/a"
		if len(kinds) == 1 && lastOK {
			d.Poke(0, core.PatternBytes(t.Seed^0xb007, 446))
			if kinds["mbr"] {
				// the CHS address fields as other partitioning tools fill them in (cylinder bits in the sector byte,
				// the "beyond the CHS limit" marker fe ff ff): they are part of the table that was read
				chs := core.PatternBytes(t.Seed^0xc45, 24)
				for e := int64(0); e < 4; e++ {
					ent := d.Peek(446+16*e, 16)
					if ent[4] == 0 {
						// an unused slot as some tools leave it when a partition is deleted: the type is cleared, the
						// addresses stay
						if chs[e*6]&1 == 1 {
							d.Poke(446+16*e+1, chs[e*6:e*6+3])
							d.Poke(446+16*e+5, chs[e*6+3:e*6+6])
							d.Poke(446+16*e+8, core.PatternBytes(t.Seed^0xde1^uint64(e), 8))
						}
						continue
					}
					d.Poke(446+16*e+1, chs[e*6:e*6+3])
					if e%2 == 0 {
						d.Poke(446+16*e+5, []byte{0xfe, 0xff, 0xff})
					} else {
						d.Poke(446+16*e+5, chs[e*6+3:e*6+6])
					}
				}
			}
			before := canonHash(d, 0, size)
			tb, rerr := partition.Read(d, int(lss), int(lss))
			if rerr != nil {
				rewrite = "unreadable:" + rerr.Error()
			} else if werr := tb.Write(d, size); werr != nil {
				rewrite = "refused:" + werr.Error()
			} else if canonHash(d, 0, size) != before {
				rewrite = "CHANGED"
			} else {
				rewrite = "same"
			}
		}
		return fmt.Sprintf("HASH %s jumps=%d span=%ds accepted=%s rewrite=%s", canonHash(d, 0, size), jumps, int64(time.Since(t0).Seconds())+t.I("jump0"), strings.Join(out, ","), strings.ReplaceAll(rewrite, " ", "_"))
	}
	if mode != "A" {
		t.Cfg["start"] = t.I("startB")
		t.Seed ^= 0x5bd1e995 // different noise outside the range
	}
	fatOpHook = func(i int) {
		if mode != "A" && int64(i)%every == 0 {
			time.Sleep(time.Duration(t.I("jumpSec")) * time.Second)
			jumps++
		}
	}
	defer func() { fatOpHook = nil }()
	t.Cfg["stale"] = -1
	res, d := execFatHistory(t, "C14", repro)
	acc := "ok"
	if res.V != nil {
		acc = "viol:" + res.V.Sig()
	}
	return fmt.Sprintf("HASH %s jumps=%d span=%ds steps=%d %s", canonHash(d, t.I("start"), t.I("size")), jumps, int64(time.Since(t0).Seconds())+t.I("jump0"), res.Steps, acc)
}

func childBinary() string {
	if p := os.Getenv("VERIF_C14CHILD"); p != "" {
		return p
	}
	return filepath.Join(os.Getenv("VERIF_DIR"), ".build", "c14child")
}

func (p c14) Exec(t *core.Trace) *core.Result {
	res := core.NewResult()
	tf := filepath.Join(scratch(), fmt.Sprintf("c14-%d.json", os.Getpid()))
	if err := t.Save(tf); err != nil {
		panic(err)
	}
	defer os.Remove(tf)
	run := func(mode string) (string, string) {
		cmd := exec.Command(childBinary(), "-test.run", "TestChild", "-test.count", "1")
		cmd.Env = append(os.Environ(), "C14_TRACE="+tf, "C14_MODE="+mode)
		out, err := cmd.CombinedOutput()
		for _, ln := range strings.Split(string(out), "\n") {
			if strings.HasPrefix(ln, "HASH ") {
				f := strings.Fields(ln)
				return f[1], ln
			}
		}
		return "", fmt.Sprintf("child failed: %v\n%s", err, tailStr(string(out), 1500))
	}
	ha, la := run("A")
	hb, lb := run("B")
	res.Evals = 1
	res.Steps = int64(len(t.Ops))
	wl := t.Sg("wl")
	res.Probe(wl)
	res.Fault("clock-jump")
	res.Probe("clock-jump")
	res.Fault("process-boundary")
	switch sde := t.I("sde"); {
	case sde == 0:
		res.Probe("epoch-zero")
	case sde < 315532800:
		res.Probe("epoch-pre-1980")
	case sde%2 == 1:
		res.Probe("epoch-odd")
	}
	if t.I("startB") != t.I("start") {
		res.Probe("different-start")
	}
	var span int64
	fmt.Sscanf(after(lb, "span="), "%ds", &span)
	res.SimTimeSec = float64(span)
	if ha == "" || hb == "" {
		// the child died: a panic inside the history is C01's business; report as infrastructure only if both modes fail identically without a hash
		res.Sample = "child produced no hash: " + la + " | " + lb
		res.Probe("child-no-hash")
		return res
	}
	if ha != hb {
		res.V = &core.Violation{Clause: "C14.images-differ", Trigger: wl + "(clock-jump,other-process,other-offset)", Locus: map[string]string{"fat": "filesystem/fat12", "table": "partition"}[wl], OpIndex: len(t.Ops) - 1,
			Detail: fmt.Sprintf("two executions of the same history in reproducible mode (SOURCE_DATE_EPOCH=%d) produced different images\n A: %s\n B: %s", t.I("sde"), la, lb)}
		return res
	}
	if wl == "table" {
		for _, ln := range []string{la, lb} {
			switch rw := after(ln, "rewrite="); {
			case strings.HasPrefix(rw, "CHANGED"):
				res.V = &core.Violation{Clause: "C14.rewrite-changed-bytes", Trigger: "table(read-then-write)", Locus: "partition", OpIndex: len(t.Ops) - 1,
					Detail: "a table read from the disk and written back changed bytes of the disk (boot code area of LBA 0 filled after the table was written)\n " + ln}
				return res
			case strings.HasPrefix(rw, "unreadable"), strings.HasPrefix(rw, "refused"):
				res.V = &core.Violation{Clause: "C14.rewrite-failed", Trigger: "table(read-then-write)", Locus: "partition", OpIndex: len(t.Ops) - 1,
					Detail: "the table that was just written cannot be read and written back\n " + ln}
				return res
			case strings.HasPrefix(rw, "same"):
				res.Probe("read-then-rewrite")
			}
		}
	}
	if wl == "fat" {
		hc, _ := run("C")
		if hc != "" && hc != ha {
			res.Probe("control-differs")
		}
	}
	if strings.Contains(la, "steps=") && !strings.Contains(la, "steps=0 ") || wl == "table" {
		res.Hashes = append(res.Hashes, core.Mix(core.HashStr(ha), uint64(t.I("sde")), uint64(t.I("startB"))))
	}
	res.Sample = fmt.Sprintf("%s sde=%d A[%s] B[%s]", wl, t.I("sde"), strings.TrimPrefix(la, "HASH "), strings.TrimPrefix(lb, "HASH "))
	return res
}

func after(s, key string) string {
	if i := strings.Index(s, key); i >= 0 {
		return s[i+len(key):]
	}
	return ""
}

func tailStr(s string, n int) string {
	if len(s) > n {
		return s[len(s)-n:]
	}
	return s
}
