package props

import (
	"encoding/binary"
	"fmt"
	"strings"

	"dsim/core"
	"dsim/indep"
	"dsim/simdisk"

	"github.com/diskfs/go-diskfs/partition"
	"github.com/diskfs/go-diskfs/partition/gpt"
	"github.com/diskfs/go-diskfs/partition/mbr"
)

// C15 — Reading a partition table from untrusted bytes cannot crash.
//
// One run = one valid base image (seeded GPT or MBR table on a small simulated disk) and the
// enumerated fault family on it: every header field x boundary values x {CRC stale, CRC
// recomputed} x {primary, backup with primary invalidated}, all pairs of size-determining
// fields, entry-level corruptions with both CRCs recomputed, truncation of the device at every
// structure boundary and seeded noise. Each faulted image is read with partition.Read,
// gpt.Read and mbr.Read under a device-read budget.
type c15 struct{}

func init() { core.Register(c15{}) }

func (c15) ID() string    { return "C15" }
func (c15) Level() string { return "fault_enumeration" }
func (c15) Rule() string {
	return "one evaluation = one corrupted/truncated image read by partition.Read, gpt.Read and mbr.Read; family per base image: every GPT header field x boundary values (0,1,2,max,max-1,sign bit,value+-1,overflow products of count*size) x CRC stale/recomputed x primary/backup, all pairs of size-determining fields, entry corruptions with CRCs recomputed, device truncated at each structure boundary, MBR slot fields, seeded noise sectors; distinct = distinct (base table, fault list); non-trivial = image differs from the valid base"
}
func (c15) Assumptions() []string {
	return []string{
		"'out of proportion': one read request may not exceed 64x the device size + 1 MiB; the worker runs under RLIMIT_AS and its death is attributed to the case in progress",
		"'promptly': at most 4000 device reads (about 1000x the fault-free reader) and 10 s per call",
		"'CRC-valid data': the header the library used carries a correct CRC and its entry array matches the array CRC (independent check)",
	}
}
func (c15) Components() map[string][]string {
	return map[string][]string{
		"real": {"partition.Read", "partition/gpt.Read", "partition/mbr.Read"},
		"stub": {"block device incl. truncated reads (SimDisk)", "stored-byte corruption injector", "independent CRC checker"},
	}
}
func (c15) ProbeNames() []string {
	return []string{"reader-returned-table", "reader-returned-error", "backup-path", "crc-recomputed", "truncated", "pair", "entry-fault", "mbr-base", "noise"}
}
func (c15) Budget(tier string) (int, int, int) {
	if tier == "thorough" {
		return 600, 1 << 30, 120
	}
	return 40, 1 << 30, 60
}

func (c15) Gen(r *core.Rng, tier string, idx int) *core.Trace {
	t := &core.Trace{Cfg: map[string]int64{}, CfgS: map[string]string{}}
	lss := int64(512)
	if r.Chance(30) {
		lss = 4096
	}
	size := r.Range(1, 8) << 20
	if r.Chance(25) {
		size = lss * r.Range(80, 400)
	}
	t.Cfg["size"] = size
	t.Cfg["lss"] = lss
	kind := int64(r.PickW(80, 20)) // 0 gpt, 1 mbr
	t.Cfg["kind"] = kind
	if kind == 0 {
		g := genGPT(r, uint64(size/lss), int(lss), 20, false)
		t.CfgS["guid"] = g.GUID
		t.Ops = g.ops("gp")
	} else {
		t.Ops = genMBR(r, uint64(size/lss)).ops("mp")
	}
	return t
}

func boundaryValues(width int, cur uint64) []uint64 {
	max := uint64(1)<<(8*uint(width)) - 1
	if width == 8 {
		max = ^uint64(0)
	}
	sign := uint64(1) << (8*uint(width) - 1)
	vals := []uint64{0, 1, 2, max, max - 1, sign, sign - 1, sign + 1, cur + 1, cur - 1, cur ^ 1, cur << 1, 0x7fffffff, 0x80000000, 0xffffffff, 0x100000000}
	if width == 4 {
		// products with 128 (entry size) / count that overflow 31/32/63 bits
		vals = append(vals, 0x01000000, 0x02000000, 0x00ffffff, 0x00800000, 0x04000000, 3, 4, 5, 6, 7, 8, 9, 127, 129, 256, 4096, 65536)
		// the stored value with one high bit added: the low part stays plausible while sums and products with it wrap
		for _, k := range []uint{16, 20, 22, 23, 24, 28, 30, 31} {
			vals = append(vals, cur|1<<k)
		}
	}
	if width <= 2 {
		// small counts: one past the capacity of small fixed arrays (4 extents in an inode, 8/16 slots, ...)
		vals = append(vals, 3, 4, 5, 6, 7, 8, 9, 16, 17)
	}
	if width == 8 {
		vals = append(vals, 1<<53, 1<<55, 1<<54+1, 0x7fffffffffffffff/512, 0x7fffffffffffffff/512+1, 1<<40)
	}
	seen := map[uint64]bool{}
	var out []uint64
	for _, v := range vals {
		v &= max
		if v == cur || seen[v] {
			continue
		}
		seen[v] = true
		out = append(out, v)
	}
	return out
}

type fieldDef struct {
	name  string
	off   int64
	width int
}

var gptHeaderFields = []fieldDef{
	{"signature", 0, 8}, {"revision", 8, 4}, {"headerSize", 12, 4}, {"headerCRC", 16, 4}, {"reserved", 20, 4},
	{"myLBA", 24, 8}, {"altLBA", 32, 8}, {"firstUsable", 40, 8}, {"lastUsable", 48, 8},
	{"arrayLBA", 72, 8}, {"count", 80, 4}, {"entrySize", 84, 4}, {"arrayCRC", 88, 4},
}
var gptSizeFields = []fieldDef{
	{"myLBA", 24, 8}, {"altLBA", 32, 8}, {"firstUsable", 40, 8}, {"lastUsable", 48, 8},
	{"arrayLBA", 72, 8}, {"count", 80, 4}, {"entrySize", 84, 4},
}

// applyPokes applies the case ops (poke, fixcrc, trunc, noise, killprimary) to a clone of base.
func applyFaultOps(img *simdisk.Disk, lss int64, ops []core.Op) {
	for _, o := range ops {
		switch o.K {
		case "poke":
			w := int(o.B)
			if w != 1 && w != 2 && w != 4 && w != 8 {
				w = 1
			}
			if o.A < 0 || o.A+int64(w) > img.Size() {
				continue
			}
			var b [8]byte
			binary.LittleEndian.PutUint64(b[:], uint64(o.C))
			img.Poke(o.A, b[:w])
		case "fixcrc":
			lba := o.A
			if lba < 0 || (lba+1)*lss > img.Size() {
				continue
			}
			if o.S == "array" {
				indep.FixGPTArrayCRC(img.Peek, img.Poke, img.Size(), lss, lba)
			}
			indep.FixGPTHeaderCRC(img.Peek, img.Poke, lss, lba)
		case "trunc":
			if o.A >= 0 && o.A < img.Size() {
				img.SetSize(o.A)
				img.TruncAt = 0
			}
		case "noise":
			if o.A >= 0 && o.B > 0 && o.A+o.B <= img.Size() {
				img.FillNoise(o.A, o.B, uint64(o.C))
			}
		case "killprimary":
			img.Poke(lss, []byte("XXXXXXXX"))
		}
	}
}

func (p c15) Exec(t *core.Trace) *core.Result {
	res := core.NewResult()
	size, lss := t.I("size"), t.I("lss")
	if lss != 512 && lss != 4096 {
		lss = 512
	}
	if size < 80*lss {
		size = 80 * lss
	}
	if size > 64<<20 {
		size = 64 << 20
	}
	kind := t.I("kind")
	base := simdisk.New(size)
	var baseOps, explicit []core.Op
	for _, o := range t.Ops {
		switch o.K {
		case "gp", "mp":
			baseOps = append(baseOps, o)
		default:
			explicit = append(explicit, o)
		}
	}
	if kind == 0 {
		spec := gptFromOps(baseOps, "gp", t.Sg("guid"))
		if spec.GUID == "" {
			spec.GUID = "11111111-2222-3333-4444-555555555555"
		}
		if err := spec.table(int(lss), int(lss)).Write(base, size); err != nil {
			res.Evals = 1
			res.Sample = "base table refused: " + err.Error()
			return res
		}
	} else {
		res.Probe("mbr-base")
		base.FillNoise(0, 440, t.Seed) // boot code
		if err := mbrFromOps(baseOps, "mp").table(int(lss), int(lss)).Write(base, size); err != nil {
			res.Evals = 1
			return res
		}
	}
	baseTrace := t.Clone()
	baseTrace.Ops = baseOps
	lastLBA := size/lss - 1

	runCase := func(ops []core.Op) *core.Violation {
		core.MarkCase(baseTrace, append(append([]core.Op(nil), ops...), core.Op{K: "read"}))
		img := base.Clone()
		applyFaultOps(img, lss, ops)
		res.Evals++
		res.Hashes = append(res.Hashes, core.Mix(t.Seed, core.HashStr(fmt.Sprint(ops))))
		trig := faultClass(ops)
		for _, reader := range []string{"partition.Read", "gpt.Read", "mbr.Read"} {
			img.St = simdisk.Stats{}
			img.MaxReadAllowed = 64*img.Size() + 1<<20
			img.OversizeRead = 0
			var err error
			var gt *gpt.Table
			var tb partition.Table
			t0 := core.CPUSeconds()
			pk, pv, loc, _ := core.Guard(func() {
				switch reader {
				case "partition.Read":
					tb, err = partition.Read(img, int(lss), int(lss))
					if g, ok := tb.(*gpt.Table); ok {
						gt = g
					}
				case "gpt.Read":
					gt, err = gpt.Read(img, int(lss), int(lss))
				case "mbr.Read":
					_, err = mbr.Read(img, int(lss), int(lss))
				}
			})
			res.DevOps += img.St.Reads
			if pk {
				return &core.Violation{Clause: "C15.panic", Trigger: reader + ":" + core.PanicClass(pv) + ":" + trig, Locus: loc, Detail: fmt.Sprintf("%s panicked: %v\nfaults: %v", reader, pv, ops)}
			}
			if img.OversizeRead > 0 {
				return &core.Violation{Clause: "C15.disproportionate-read", Trigger: reader + ":" + trig, Locus: img.OversizeLocus, Detail: fmt.Sprintf("%s issued a single read request of %d bytes on a %d-byte device (and allocated a buffer of that size)\nfaults: %v", reader, img.OversizeRead, img.Size(), ops)}
			}
			if img.St.Reads > 4000 {
				return &core.Violation{Clause: "C15.read-budget", Trigger: reader + ":" + trig, Locus: "partition/gpt.Read", Detail: fmt.Sprintf("%s issued %d device reads\nfaults: %v", reader, img.St.Reads, ops)}
			}
			if el := core.CPUSeconds() - t0; el > 10 {
				return &core.Violation{Clause: "C15.slow", Trigger: reader + ":" + trig, Locus: "partition/gpt.Read", Detail: fmt.Sprintf("%s took %.1f s of CPU time\nfaults: %v", reader, el, ops)}
			}
			if err != nil {
				res.Probe("reader-returned-error")
				continue
			}
			res.Probe("reader-returned-table")
			if gt != nil {
				lba := uint64(1)
				if gt.RecoveredFromBackup {
					res.Probe("backup-path")
					lba = uint64(img.Size()/lss) - 1
				}
				ents, h, ok := indep.GPTCopyCRCValid(img, lss, lba)
				if !ok {
					return &core.Violation{Clause: "C15.table-from-crc-invalid-data", Trigger: reader + ":" + trig, Locus: "partition/gpt.Read", Detail: fmt.Sprintf("%s returned a table (fromBackup=%v) but the copy at LBA %d is not CRC-valid\nfaults: %v", reader, gt.RecoveredFromBackup, lba, ops)}
				}
				if h.EntrySize == 128 {
					got := canonOfTable(gt, gptSpec{GUID: "x"})
					wantc := canonOfIndep(h, ents, gptSpec{GUID: "x"})
					if got != wantc {
						return &core.Violation{Clause: "C15.table-from-crc-invalid-data", Trigger: reader + ":" + trig, Locus: "partition/gpt.Read", Detail: fmt.Sprintf("%s returned partitions that differ from the CRC-valid copy at LBA %d\n got %s\nwant %s\nfaults: %v", reader, lba, got, wantc, ops)}
					}
				}
			}
		}
		return nil
	}
	report := func(v *core.Violation, ops []core.Op) *core.Result {
		res.V = v
		nt := baseTrace.Clone()
		nt.Ops = append(nt.Ops, ops...)
		nt.Ops = append(nt.Ops, core.Op{K: "read"})
		v.OpIndex = len(nt.Ops) - 1
		res.Narrow = nt
		return res
	}

	if len(explicit) > 0 {
		var ops []core.Op
		for _, o := range explicit {
			if o.K != "read" {
				ops = append(ops, o)
			}
		}
		if v := runCase(ops); v != nil {
			return report(v, ops)
		}
		core.ClearCase()
		return res
	}

	// fault-free baseline must read fine
	if v := runCase(nil); v != nil {
		return report(v, nil)
	}
	try := func(ops ...core.Op) *core.Violation { return runCase(ops) }

	if kind == 0 {
		for _, side := range []struct {
			lba  int64
			kill bool
		}{{1, false}, {lastLBA, true}} {
			pre := []core.Op{}
			if side.kill {
				pre = append(pre, core.Op{K: "killprimary"})
			}
			hdr := base.Peek(side.lba*lss, 92)
			for _, f := range gptHeaderFields {
				cur := uint64(0)
				switch f.width {
				case 4:
					cur = uint64(binary.LittleEndian.Uint32(hdr[f.off:]))
				case 8:
					cur = binary.LittleEndian.Uint64(hdr[f.off:])
				}
				for _, v := range boundaryValues(f.width, cur) {
					for crc := 0; crc < 2; crc++ {
						ops := append(append([]core.Op(nil), pre...), core.Op{K: "poke", A: side.lba*lss + f.off, B: int64(f.width), C: int64(v), S: f.name})
						if crc == 1 {
							if f.name == "headerCRC" {
								continue
							}
							ops = append(ops, core.Op{K: "fixcrc", A: side.lba})
							res.Probe("crc-recomputed")
						}
						res.Fault("flip")
						if vi := runCase(ops); vi != nil {
							return report(vi, ops)
						}
					}
				}
			}
			// pairs of size-determining fields, CRC recomputed; also with the array CRC recomputed to match
			pairVals := func(f fieldDef) []uint64 {
				if f.width == 4 {
					return []uint64{0, 1, 0x7fffffff, 0xffffffff, 0x02000000, 129}
				}
				return []uint64{0, 1, uint64(lastLBA), uint64(lastLBA) + 1, 1 << 55, ^uint64(0)}
			}
			for i := 0; i < len(gptSizeFields); i++ {
				for j := i + 1; j < len(gptSizeFields); j++ {
					fa, fb := gptSizeFields[i], gptSizeFields[j]
					for _, va := range pairVals(fa) {
						for _, vb := range pairVals(fb) {
							for arr := 0; arr < 2; arr++ {
								ops := append(append([]core.Op(nil), pre...),
									core.Op{K: "poke", A: side.lba*lss + fa.off, B: int64(fa.width), C: int64(va), S: fa.name},
									core.Op{K: "poke", A: side.lba*lss + fb.off, B: int64(fb.width), C: int64(vb), S: fb.name})
								fix := core.Op{K: "fixcrc", A: side.lba}
								if arr == 1 {
									fix.S = "array"
								}
								ops = append(ops, fix)
								res.Fault("flip")
								res.Probe("pair")
								if vi := runCase(ops); vi != nil {
									return report(vi, ops)
								}
							}
						}
					}
				}
			}
			// entry-level corruption with CRCs recomputed
			arrLBA := int64(binary.LittleEndian.Uint64(hdr[72:80]))
			for e := int64(0); e < 3; e++ {
				eo := arrLBA*lss + e*128
				for _, f := range []fieldDef{{"typeGUID", 0, 8}, {"partGUID", 16, 8}, {"first", 32, 8}, {"last", 40, 8}, {"attr", 48, 8}, {"name0", 56, 2}, {"name35", 126, 2}} {
					for _, v := range []uint64{0, 1, ^uint64(0), 1 << 63, 0xD800, 0xDC00, uint64(lastLBA) + 5} {
						ops := append(append([]core.Op(nil), pre...), core.Op{K: "poke", A: eo + f.off, B: int64(f.width), C: int64(v), S: "entry." + f.name},
							core.Op{K: "fixcrc", A: side.lba, S: "array"})
						res.Fault("flip")
						res.Probe("entry-fault")
						if vi := runCase(ops); vi != nil {
							return report(vi, ops)
						}
					}
				}
			}
		}
	} else {
		for slot := int64(0); slot < 4; slot++ {
			so := 446 + 16*slot
			for _, f := range []fieldDef{{"boot", 0, 1}, {"chs0", 1, 1}, {"type", 4, 1}, {"start", 8, 4}, {"size", 12, 4}} {
				cur := uint64(base.Peek(so+f.off, 1)[0])
				for _, v := range boundaryValues(f.width, cur) {
					if vi := try(core.Op{K: "poke", A: so + f.off, B: int64(f.width), C: int64(v), S: "mbr." + f.name}); vi != nil {
						return report(vi, []core.Op{{K: "poke", A: so + f.off, B: int64(f.width), C: int64(v), S: "mbr." + f.name}})
					}
					res.Fault("flip")
				}
			}
		}
		for _, v := range []uint64{0, 0x55, 0xaa, 0xaa55, 0x55aa, 0xffff} {
			op := core.Op{K: "poke", A: 510, B: 2, C: int64(v), S: "mbr.signature"}
			res.Fault("flip")
			if vi := try(op); vi != nil {
				return report(vi, []core.Op{op})
			}
		}
	}
	// truncation at structure boundaries
	arr := (int64(128*128) + lss - 1) / lss
	cuts := []int64{0, 1, 439, 446, 510, 511, 512, 513, lss - 1, lss, lss + 1, lss + 91, lss + 92, 2*lss - 1, 2 * lss, 2*lss + 1, 2*lss + 127, 2*lss + 128,
		(2+arr)*lss - 1, (2 + arr) * lss, (lastLBA - arr) * lss, (lastLBA-arr)*lss + 1, lastLBA*lss - 1, lastLBA * lss, lastLBA*lss + 91, lastLBA*lss + 92, size - 1}
	for _, c := range cuts {
		if c < 0 || c >= size {
			continue
		}
		op := core.Op{K: "trunc", A: c}
		res.Fault("trunc")
		res.Probe("truncated")
		if vi := try(op); vi != nil {
			return report(vi, []core.Op{op})
		}
		// truncated with the primary killed (forces the backup path to compute its location from the short device)
		if kind == 0 {
			if vi := try(core.Op{K: "killprimary"}, op); vi != nil {
				return report(vi, []core.Op{{K: "killprimary"}, op})
			}
		}
	}
	// seeded noise over header / array / whole head of the disk
	rng := core.NewRng(core.Mix(t.Seed, 0xC15))
	for i := 0; i < 24; i++ {
		var op core.Op
		switch i % 4 {
		case 0:
			op = core.Op{K: "noise", A: lss, B: lss, C: int64(rng.U64() >> 1)}
		case 1:
			op = core.Op{K: "noise", A: 0, B: 34 * 512, C: int64(rng.U64() >> 1)}
		case 2:
			op = core.Op{K: "noise", A: lss + rng.Range(0, 91), B: rng.Range(1, 8), C: int64(rng.U64() >> 1)}
		case 3:
			op = core.Op{K: "noise", A: 440, B: 72, C: int64(rng.U64() >> 1)}
		}
		res.Fault("noise")
		res.Probe("noise")
		ops := []core.Op{op}
		if i%4 == 2 {
			ops = append(ops, core.Op{K: "fixcrc", A: 1})
		}
		if vi := runCase(ops); vi != nil {
			return report(vi, ops)
		}
	}
	core.ClearCase()
	res.Steps = res.Evals
	res.Sample = fmt.Sprintf("base kind=%d size=%d lss=%d parts=%d; %d faulted images, e.g. poke(count=0x02000000,crc fixed), trunc(%d)", kind, size, lss, len(baseOps), res.Evals, lss+92)
	return res
}

// faultClass names a fault list coarsely (for signatures): field names and crc mode, not values.
func faultClass(ops []core.Op) string {
	var parts []string
	for _, o := range ops {
		switch o.K {
		case "poke":
			parts = append(parts, "flip("+o.S+")")
		case "fixcrc":
			if o.S == "array" {
				parts = append(parts, "crc+array-fixed")
			} else {
				parts = append(parts, "crc-fixed")
			}
		case "trunc":
			parts = append(parts, "trunc")
		case "noise":
			parts = append(parts, "noise")
		case "killprimary":
			parts = append(parts, "primary-dead")
		}
	}
	if len(parts) == 0 {
		return "no-fault"
	}
	return strings.Join(parts, "+")
}
