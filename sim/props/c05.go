package props

import "dsim/core"

// C05 — Every ext4 image the library produces is clean for e2fsck.
type c05 struct{}

func init() { core.Register(c05{}) }

func (c05) ID() string    { return "C05" }
func (c05) Level() string { return "exploration" }
func (c05) Rule() string {
	return "one evaluation = one e2fsck -f -n run on the durable bytes: after Create with a seeded parameter set (block size, blocks per group, inode ratio/count, journal, 64bit, flex_bg, metadata_csum, sparse_super2, sizes from a few MiB to multi-group) and after every operation of a seeded C04-style history, accepted or refused; exit code 0 required; distinct = distinct (parameter class, operation class sequence); non-trivial = run with at least one operation after Create"
}
func (c05) Assumptions() []string {
	return []string{"e2fsprogs 1.47.0 at /usr/sbin/e2fsck is the reference checker; its absence is an infrastructure error (exit 2)", "the image is the byte range the volume was given, dumped to a tmpfs scratch file"}
}
func (c05) Components() map[string][]string {
	return map[string][]string{
		"real": {"filesystem/ext4 writer", "e2fsck 1.47.0 (independent implementation)"},
		"stub": {"block device (SimDisk)"},
	}
}
func (c05) ProbeNames() []string {
	return []string{"created", "e2fsck-runs", "journal", "metadata-csum", "remove", "symlink", "dir-growth", "fragmented-extents", "volume-share-write", "fill-reached-refusal", "extent-tree-depth2", "truncating-open"}
}
func (c05) Budget(tier string) (int, int, int) {
	if tier == "thorough" {
		return 1500, 1 << 30, 900
	}
	return 55, 1 << 30, 240
}
func (c05) Gen(r *core.Rng, tier string, idx int) *core.Trace {
	return genExt4History(r, tier, idx, true)
}
func (c05) Exec(t *core.Trace) *core.Result {
	res, _ := execExt4History(t, "C05")
	return res
}
