package props

import "dsim/core"

// C04 — ext4 behaves like a plain tree of files, directories and symlinks.
type c04 struct{}

func init() { core.Register(c04{}) }

func (c04) ID() string    { return "C04" }
func (c04) Level() string { return "exploration" }
func (c04) Rule() string {
	return "one evaluation = one seeded history (mkdir, create, write at start/inside/EOF/EOF+gap in several steps, append, symlink with targets around the 60-byte inline limit, remove, chmod, chown, chtimes, many files in one directory, interleaved appends that fragment extents, reopen) on an ext4 volume (1 KiB/4 KiB blocks, with/without journal and metadata checksums, start 0 / 1 MiB / 5 GiB) compared after every operation - live, through the writing handle and after re-opening from the bytes - with an in-memory tree incl. link targets and the attributes the history set; distinct = distinct sequences of (operation class, accepted/refused) per configuration; non-trivial = at least one accepted mutation"
}
func (c04) Assumptions() []string {
	return []string{
		"attributes are compared only after the history set them (defaults chosen by the library at create time are not predicted)",
		"a path touched by a refused call is excluded from later comparison; chmod/chown/chtimes on symlinks are not issued",
		"device EIO is not injected",
	}
}
func (c04) Components() map[string][]string {
	return map[string][]string{
		"real": {"filesystem/ext4 (Create, Read, Mkdir, OpenFile, File.Read/Write/Seek, Symlink, ReadLink, Remove, Chmod, Chown, Chtimes, ReadDir, ReadFile, Stat)", "util/bitmap"},
		"stub": {"block device (SimDisk)", "reference tree with attributes"},
	}
}
func (c04) ProbeNames() []string {
	return []string{"created", "journal", "metadata-csum", "op-refused", "symlink", "remove", "attr-change", "reopen", "dir-growth", "fragmented-extents", "volume-share-write", "fill-reached-refusal", "extent-tree-depth2", "truncating-open"}
}
func (c04) Budget(tier string) (int, int, int) {
	if tier == "thorough" {
		return 1500, 1 << 30, 600
	}
	return 50, 1 << 30, 120
}
func (c04) Gen(r *core.Rng, tier string, idx int) *core.Trace {
	return genExt4History(r, tier, idx, false)
}
func (c04) Exec(t *core.Trace) *core.Result {
	res, _ := execExt4History(t, "C04")
	return res
}
