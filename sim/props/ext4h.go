package props

import (
	"bytes"
	"fmt"
	"io"
	"os"
	"os/exec"
	"path/filepath"
	"sort"
	"strings"
	"time"

	"dsim/core"
	"dsim/simdisk"

	"github.com/diskfs/go-diskfs/filesystem"
	"github.com/diskfs/go-diskfs/filesystem/ext4"
)

// ---------------------------------------------------------------- model attributes

type ext4Attr struct {
	mode             os.FileMode // permission + setuid/setgid/sticky bits as os.FileMode
	uid, gid         uint32
	atime, mtime, ct time.Time // access, modify, create (Chtimes sets create/access/modify)
	link             string
	attrKnown        bool // mode/owner set by the harness (defaults after create are not predicted)
	timesKnown       bool
}

// ---------------------------------------------------------------- generator

var ext4Names = []string{"a.txt", "B.BIN", "file with space", "x", "long-file-name-that-is-not-short-at-all.data", "ünï.txt"}
var ext4Dirs = []string{"d1", "d1/sub", "Dir Two"}

func genExt4Cfg(r *core.Rng, tier string, t *core.Trace, wide bool) {
	switch r.PickW(35, 30, 30, 5) {
	case 0:
		t.Cfg["size"] = r.Range(9, 24) << 20
	case 1:
		t.Cfg["size"] = r.Range(17, 40) << 20
	case 2:
		t.Cfg["size"] = (r.Range(8, 32) << 20) + 512*r.Range(1, 2000)
	case 3:
		t.Cfg["size"] = core.PickOf[int64](r, 64<<20, 100<<20, 256<<20)
	}
	if tier == "quick" && t.Cfg["size"] > 40<<20 {
		t.Cfg["size"] = 32 << 20
	}
	t.Cfg["start"] = core.PickOf[int64](r, 0, 0, 1<<20, 5<<30)
	t.Cfg["spb"] = core.PickOf[int64](r, 0, 2, 2, 8)
	t.Cfg["journal"] = int64(r.Intn(2))
	t.Cfg["csum"] = int64(r.Intn(2))
	if wide {
		t.Cfg["flexbg"] = int64(r.PickW(15, 85))
		t.Cfg["b64"] = int64(r.Intn(2))
		t.Cfg["sparse2"] = int64(r.PickW(70, 30))
		t.Cfg["bpg"] = 0
		if r.Chance(30) { // non-default blocks per group
			t.Cfg["bpg"] = core.PickOf[int64](r, 8192, 4096, 2048)
		}
		t.Cfg["logflex"] = core.PickOf[int64](r, 0, 0, 1, 1, 2, 3) // groups per flex group = 2^n (0 = default 16)
		t.Cfg["iratio"] = core.PickOf[int64](r, 0, 0, 8192, 16384, 65536, 1024, 2048)
		t.Cfg["icount"] = core.PickOf[int64](r, 0, 0, 0, 128, 1000, 16, 24, 32, 48, 64) // (the small ones: 8 inodes per group, the size of the reserved range, on volumes of two to eight groups)
		if r.Chance(35) {
			// a last block group of 0..3000 blocks behind 1..5 full ones: the sizes around which Create has to
			// decide whether the last group can hold its own metadata
			bs := int64(1024)
			if t.Cfg["spb"] == 8 {
				bs = 4096
			}
			bpg := t.Cfg["bpg"]
			if bpg == 0 {
				bpg = bs * 8
			}
			// (mostly with two groups per flex group and an even number of full groups, so that the small last
			// group is the first of its flex group and has to hold bitmaps and inode table itself)
			nfull := r.Range(1, 5)
			if r.Chance(60) {
				t.Cfg["logflex"] = 1
				nfull = 2 * r.Range(1, 2)
			}
			if full := nfull * bpg * bs; full+3000*bs <= 300<<20 {
				t.Cfg["size"] = full + bs*(1+r.Range(0, 3000))
				if tier == "quick" && t.Cfg["size"] > 48<<20 {
					t.Cfg["size"] = bpg*bs + bs*(1+r.Range(0, 3000))
					if t.Cfg["size"] > 48<<20 {
						t.Cfg["size"] = 32 << 20 // (4 KiB blocks: a group is 128 MiB; left to the thorough tier)
					}
				}
			}
		}
	} else {
		t.Cfg["flexbg"] = 1
	}
}

func genExt4History(r *core.Rng, tier string, idx int, wide bool) *core.Trace {
	t := &core.Trace{Cfg: map[string]int64{}, CfgS: map[string]string{}}
	genExt4Cfg(r, tier, t, wide)
	nops := 1 + r.Intn(24)
	if tier == "thorough" {
		nops = 1 + r.Intn(80)
	}
	if wide {
		nops = r.Intn(12)
		if tier == "thorough" {
			nops = r.Intn(50)
		}
	}
	if r.Chance(25) {
		nops = 1 + r.Intn(4)
	}
	dirPaths := []string{"", ext4Dirs[0], ext4Dirs[1], ext4Dirs[2]}
	pickDir := func() string { return dirPaths[r.PickW(50, 25, 10, 15)] }
	pickFile := func() string {
		d := pickDir()
		n := ext4Names[r.Intn(len(ext4Names))]
		if d == "" {
			return n
		}
		return d + "/" + n
	}
	sizes := func() int64 {
		switch r.PickW(8, 8, 25, 25, 20, 10, 4, 3) {
		case 7:
			// a share of the volume (negative = percent): larger than any single run of free blocks, so that the
			// allocator has to split the request over block groups
			return -r.Range(25, 85)
		case 0:
			return 0
		case 1:
			return 1
		case 2:
			return 1024*r.Range(1, 5) + r.Range(-1, 1)
		case 3:
			return r.Range(1, 9000)
		case 4:
			return core.PickOf[int64](r, 4096, 8192, 16384, 65536) + r.Range(-1, 1)
		case 5:
			return r.Range(20000, 400000)
		default:
			return r.Range(1<<20, 3<<20)
		}
	}
	for i := 0; i < nops; i++ {
		switch r.PickW(10, 12, 24, 8, 8, 9, 6, 6, 6, 5, 3, 3, 2, 1, 4, 1, 3) {
		case 16:
			// blocks that held data go back to the volume and are handed to a new, short file, which then gets a write
			// beyond its end that still lies in its first block: the gap must read as zeros, not as the old file
			old, nu := pickFile(), pickFile()
			t.Ops = append(t.Ops, core.Op{K: "write", P: old, A: 0, B: r.Range(3000, 20000), C: int64(r.U64() >> 2)},
				core.Op{K: "remove", P: old},
				core.Op{K: "write", P: nu, A: 0, B: r.Range(1, 300), C: int64(r.U64() >> 2)},
				core.Op{K: "write", P: nu, A: 3, B: r.Range(1, 200), C: int64(r.U64() >> 2), D: r.Range(1, 500)})
		case 15:
			t.Ops = append(t.Ops, core.Op{K: "squeeze", A: r.Range(0, 1000)})
		case 14:
			// truncating open followed by a write of the new content (as CopyFileSystem does over an existing file)
			t.Ops = append(t.Ops, core.Op{K: "trunc", P: pickFile(), B: sizes(), C: int64(r.U64() >> 2)})
		case 13:
			// several hundred interleaved one-block appends to two files: more extents than four leaf blocks hold
			// (84 per 1 KiB leaf, 340 per 4 KiB leaf)
			t.Ops = append(t.Ops, core.Op{K: "fragment", P: pickDir(), A: r.Range(340, 420), B: 1024, C: 1})
		case 12:
			// fill the volume with files of mixed sizes until it refuses, free every other one, fill again
			t.Ops = append(t.Ops, core.Op{K: "fillup", A: r.Range(0, 1000)})
		case 0:
			t.Ops = append(t.Ops, core.Op{K: "mkdir", P: dirPaths[1+r.Intn(3)]})
		case 1:
			t.Ops = append(t.Ops, core.Op{K: "create", P: pickFile()})
		case 2:
			t.Ops = append(t.Ops, core.Op{K: "write", P: pickFile(), A: int64(r.PickW(30, 25, 30, 15)), B: sizes(), C: int64(r.U64() >> 2), D: r.Range(1, 5000)})
		case 3:
			t.Ops = append(t.Ops, core.Op{K: "append", P: pickFile(), B: sizes(), C: int64(r.U64() >> 2)})
		case 4:
			tl := core.PickOf[int64](r, 1, 7, 58, 59, 60, 60, 61, 200, 1000)
			t.Ops = append(t.Ops, core.Op{K: "symlink", P: pickFile() + ".lnk", B: tl, A: int64(r.Intn(2))})
		case 5:
			if r.Chance(20) {
				t.Ops = append(t.Ops, core.Op{K: "remove", P: dirPaths[1+r.Intn(3)]})
			} else {
				t.Ops = append(t.Ops, core.Op{K: "remove", P: pickFile()})
			}
		case 6:
			t.Ops = append(t.Ops, core.Op{K: "chmod", P: pickFile(), A: int64(r.Intn(0o10000))})
		case 7:
			ids := []int64{0, 1, 1000, 65535, 65536, 1<<32 - 2, -1}
			t.Ops = append(t.Ops, core.Op{K: "chown", P: pickFile(), A: ids[r.Intn(len(ids))], B: ids[r.Intn(len(ids))]})
		case 8:
			ts := []int64{0, 1, -1, 86400 * 365 * 30, 2147483647, 2147483648, 4102444800, -2147483648, 1700000000, 6442450944, 8589934591, 8589934592, 10737418240, 11811160064, 12884901887, 12884901888, 15032385535} // (up to 2446: all four values of the two epoch bits, around every boundary)
			t.Ops = append(t.Ops, core.Op{K: "chtimes", P: pickFile(), A: ts[r.Intn(len(ts))], B: ts[r.Intn(len(ts))], C: ts[r.Intn(len(ts))], D: r.Range(0, 999999999)})
		case 9:
			t.Ops = append(t.Ops, core.Op{K: "reopen", A: int64(r.Intn(2))})
		case 10:
			// directory growth: many entries in one directory
			t.Ops = append(t.Ops, core.Op{K: "manyfiles", P: pickDir(), A: r.Range(20, 150), B: int64(r.PickW(70, 30)), C: int64(r.PickW(65, 35))})
		case 11:
			t.Ops = append(t.Ops, core.Op{K: "fragment", P: pickDir(), A: r.Range(3, 12), B: r.Range(1, 20) * 1024})
		}
	}
	return t
}

// ---------------------------------------------------------------- executor

type ext4Run struct {
	t       *core.Trace
	res     *core.Result
	prop    string
	d       *simdisk.Disk
	fs      *ext4.FileSystem
	m       *treeModel
	attr    map[string]*ext4Attr
	size    int64
	start   int64
	opIdx   int
	trig    string
	locus   string
	lastErr bool
	mutated bool
	seq     int
}

func (x *ext4Run) want(clause string) bool { return strings.HasPrefix(clause, x.prop+".") }

// pfx is the clause prefix of the tree/attribute comparison: C04 owns it, C19 reuses it.
func (x *ext4Run) pfx() string {
	if x.prop == "C19" {
		return "C19."
	}
	return "C04."
}
func (x *ext4Run) viol(clause, detail string) *core.Violation {
	return &core.Violation{Clause: clause, Trigger: x.trig, Locus: x.locus, Detail: detail, OpIndex: x.opIdx}
}
func (x *ext4Run) call(f func()) *core.Violation {
	if pk, pv, loc, st := core.Guard(f); pk {
		cl := x.prop + ".panic"
		if x.prop != "C04" && x.prop != "C05" && x.prop != "C19" {
			cl = "other.panic"
		}
		return &core.Violation{Clause: cl, Trigger: x.trig + ":" + core.PanicClass(pv), Locus: loc, Detail: fmt.Sprintf("panic: %v\n%s", pv, firstLinesOf(st, 14)), OpIndex: x.opIdx}
	}
	return nil
}

func ext4Params(t *core.Trace) *ext4.Params {
	p := &ext4.Params{VolumeName: "dsim"}
	if v := t.I("spb"); v == 2 || v == 8 || v == 4 {
		p.SectorsPerBlock = uint8(v)
	}
	p.Features = append(p.Features, ext4.WithFeatureHasJournal(t.I("journal") == 1))
	if t.I("csum") == 1 {
		p.Checksum = true
		p.Features = append(p.Features, ext4.WithFeatureMetadataChecksums(true))
	}
	if t.I("flexbg") == 0 {
		p.Features = append(p.Features, ext4.WithFeatureFlexBlockGroups(false))
	}
	if t.I("b64") == 1 {
		p.Features = append(p.Features, ext4.WithFeatureFS64Bit(true))
	}
	if t.I("sparse2") == 1 {
		p.Features = append(p.Features, ext4.WithFeatureSparseSuperBlockV2(true))
		p.SparseSuperVersion = 2
	}
	if v := t.I("bpg"); v > 0 {
		p.BlocksPerGroup = uint32(v)
	}
	if v := t.I("iratio"); v > 0 {
		p.InodeRatio = v
	}
	if v := t.I("logflex"); v > 0 && v <= 5 && t.I("flexbg") != 0 {
		p.LogFlexBlockGroups = int(v)
	}
	if v := t.I("icount"); v > 0 {
		p.InodeCount = uint32(v)
	}
	return p
}

// compare checks listings, contents, link targets and harness-set attributes against the model.
func (x *ext4Run) compare(fs *ext4.FileSystem, phase string) *core.Violation {
	m := x.m
	for _, p := range m.paths() {
		n := m.nodes[p]
		if !n.dir {
			continue
		}
		var ents []os.DirEntry
		var err error
		if v := x.call(func() { ents, err = fs.ReadDir(vpath(p)) }); v != nil {
			return v
		}
		if err != nil {
			return x.viol(x.pfx()+phase+"listing", fmt.Sprintf("ReadDir(%q) failed: %v", vpath(p), err))
		}
		got := map[string]bool{}
		for _, e := range ents {
			if e.Name() == "." || e.Name() == ".." || (p == "" && e.Name() == "lost+found") {
				continue
			}
			k := "f"
			if e.IsDir() {
				k = "d"
			} else if e.Type()&os.ModeSymlink != 0 {
				k = "l"
			}
			got[e.Name()+"|"+k] = true
		}
		wantSet := map[string]bool{}
		for _, c := range m.children(p) {
			cn := m.nodes[c]
			if cn.tainted {
				delete(got, cn.name+"|f")
				delete(got, cn.name+"|d")
				delete(got, cn.name+"|l")
				continue
			}
			k := "f"
			if cn.dir {
				k = "d"
			} else if a := x.attr[c]; a != nil && a.link != "" {
				k = "l"
			}
			wantSet[cn.name+"|"+k] = true
		}
		if !sameSet(got, wantSet) {
			return x.viol(x.pfx()+phase+"listing", fmt.Sprintf("directory %q lists %v, reference tree has %v", p, keys(got), keys(wantSet)))
		}
	}
	for _, p := range m.paths() {
		n := m.nodes[p]
		if p == "" || n.tainted {
			continue
		}
		a := x.attr[p]
		if a != nil && a.link != "" {
			var tgt string
			var err error
			if v := x.call(func() { tgt, err = fs.ReadLink(p) }); v != nil {
				return v
			}
			if err != nil || tgt != a.link {
				return x.viol(x.pfx()+phase+"link-target", fmt.Sprintf("ReadLink(%q) = %q, %v; reference target has %d bytes %q", p, clip(tgt, 80), err, len(a.link), clip(a.link, 80)))
			}
			continue
		}
		if !n.dir {
			var data []byte
			var err error
			if v := x.call(func() { data, err = fs.ReadFile(p) }); v != nil {
				return v
			}
			if err != nil {
				return x.viol(x.pfx()+phase+"read-own-file", fmt.Sprintf("ReadFile(%q) of a file the library wrote failed: %v", p, err))
			}
			if !bytes.Equal(data, n.data) {
				return x.viol(x.pfx()+phase+"content", fmt.Sprintf("%q: %s", p, diffDesc(data, n.data)))
			}
		}
		if a != nil && (a.attrKnown || a.timesKnown) {
			var fi os.FileInfo
			var err error
			if v := x.call(func() { fi, err = fs.Stat(p) }); v != nil {
				return v
			}
			if err != nil {
				return x.viol(x.pfx()+phase+"stat", fmt.Sprintf("Stat(%q): %v", p, err))
			}
			st, _ := fi.Sys().(*ext4.StatT)
			if a.attrKnown {
				gotMode := fi.Mode() & (os.ModePerm | os.ModeSetuid | os.ModeSetgid | os.ModeSticky)
				if a.mode != 1<<31 && gotMode != a.mode {
					return x.viol(x.pfx()+phase+"mode", fmt.Sprintf("%q: mode %v, reference %v", p, gotMode, a.mode))
				}
				if st != nil && a.uid != 1<<32-1 && (st.UID != a.uid || st.GID != a.gid) {
					return x.viol(x.pfx()+phase+"owner", fmt.Sprintf("%q: uid:gid %d:%d, reference %d:%d", p, st.UID, st.GID, a.uid, a.gid))
				}
			}
			if a.timesKnown && st != nil {
				if !fi.ModTime().Equal(a.mtime) || !st.AccessTime.Equal(a.atime) || !st.CreateTime.Equal(a.ct) {
					return x.viol(x.pfx()+phase+"times", fmt.Sprintf("%q: mtime %v atime %v crtime %v, reference %v %v %v", p, fi.ModTime().UTC(), st.AccessTime.UTC(), st.CreateTime.UTC(), a.mtime.UTC(), a.atime.UTC(), a.ct.UTC()))
				}
			}
			if n.dir != fi.IsDir() {
				return x.viol(x.pfx()+phase+"kind", fmt.Sprintf("%q: IsDir=%v, reference %v", p, fi.IsDir(), n.dir))
			}
		}
	}
	return nil
}

func clip(s string, n int) string {
	if len(s) > n {
		return s[:n] + "…"
	}
	return s
}

func (x *ext4Run) resync(p string) {
	n := x.m.get(p)
	var fi os.FileInfo
	var err error
	if pk, _, _, _ := core.Guard(func() { fi, err = x.fs.Stat(p) }); pk {
		if n != nil {
			n.tainted = true
		}
		return
	}
	if err != nil {
		if n != nil && !n.dir {
			x.m.del(p)
			delete(x.attr, x.m.key(p))
		}
		return
	}
	if n == nil {
		n = &mnode{dir: fi.IsDir()}
		x.m.put(p, n)
	}
	// after a refused call the target is in an unspecified state: exclude it
	n.tainted = true
}

func (x *ext4Run) writeFile(p string, off int64, data []byte, appendMode bool) *core.Violation {
	n := x.m.get(p)
	flag := os.O_RDWR
	if appendMode {
		flag |= os.O_APPEND
	}
	var f filesystem.File
	var err error
	var wn int
	if v := x.call(func() {
		f, err = x.fs.OpenFile(p, flag)
		if err != nil {
			return
		}
		if !appendMode {
			if _, err = f.Seek(off, io.SeekStart); err != nil {
				return
			}
		}
		wn, err = f.Write(data)
	}); v != nil {
		return v
	}
	if err != nil {
		x.lastErr = true
		x.res.Probe("op-refused")
		if strings.Contains(err.Error(), "space") {
			x.res.Fault("full")
		}
		x.resync(p)
		return nil
	}
	if wn != len(data) {
		return x.viol("C04.write-count", fmt.Sprintf("Write returned n=%d err=nil for %d bytes at offset %d", wn, len(data), off))
	}
	n.data = applyWrite(n.data, off, data)
	x.mutated = true
	// read back through the same handle
	var back []byte
	if v := x.call(func() {
		if _, err = f.Seek(0, io.SeekStart); err != nil {
			return
		}
		back, err = io.ReadAll(f)
		f.Close()
	}); v != nil {
		return v
	}
	if err != nil {
		return x.viol("C04.read-own-file", fmt.Sprintf("%q: read back through the writing handle failed: %v", p, err))
	}
	if !bytes.Equal(back, n.data) {
		return x.viol("C04.same-handle-readback", fmt.Sprintf("%q after write(off=%d,len=%d): %s", p, off, len(data), diffDesc(back, n.data)))
	}
	return nil
}

func (x *ext4Run) createFile(p string) (bool, *core.Violation) {
	var err error
	if v := x.call(func() {
		var f filesystem.File
		f, err = x.fs.OpenFile(p, os.O_CREATE|os.O_RDWR)
		if err == nil {
			f.Close()
		}
	}); v != nil {
		return false, v
	}
	if err != nil {
		x.lastErr = true
		x.res.Probe("op-refused")
		if strings.Contains(err.Error(), "space") || strings.Contains(err.Error(), "inode") {
			x.res.Fault("full")
		}
		x.resync(p)
		return false, nil
	}
	if x.m.get(p) == nil {
		x.m.put(p, &mnode{})
		x.mutated = true
	}
	return true, nil
}

func (x *ext4Run) step(o core.Op) *core.Violation {
	m := x.m
	x.lastErr = false
	lib := "filesystem/ext4"
	parentOK := func(p string) bool {
		par := m.get(parentOf(p))
		return par != nil && par.dir && !par.tainted
	}
	switch o.K {
	case "mkdir":
		if !parentOK(o.P) {
			return nil
		}
		if n := m.get(o.P); n != nil && !n.dir {
			return nil
		}
		x.trig, x.locus = "mkdir", lib+".(*FileSystem).Mkdir"
		var err error
		if v := x.call(func() { err = x.fs.Mkdir(o.P) }); v != nil {
			return v
		}
		if err != nil {
			x.lastErr = true
			x.res.Probe("op-refused")
			x.resync(o.P)
			return nil
		}
		if m.get(o.P) == nil {
			m.put(o.P, &mnode{dir: true})
			x.mutated = true
		}
	case "create":
		if !parentOK(o.P) {
			return nil
		}
		if n := m.get(o.P); n != nil && (n.dir || n.tainted || (x.attr[m.key(o.P)] != nil && x.attr[m.key(o.P)].link != "")) {
			return nil
		}
		x.trig, x.locus = "create", lib+".(*FileSystem).OpenFile"
		if _, v := x.createFile(o.P); v != nil {
			return v
		}
	case "write", "append":
		n := m.get(o.P)
		if n == nil {
			// create it first so that writes are frequent
			if !parentOK(o.P) {
				return nil
			}
			x.trig, x.locus = "create", lib+".(*FileSystem).OpenFile"
			ok, v := x.createFile(o.P)
			if v != nil || !ok {
				return v
			}
			n = m.get(o.P)
		}
		if n.dir || n.tainted || (x.attr[m.key(o.P)] != nil && x.attr[m.key(o.P)].link != "") {
			return nil
		}
		if o.B < 0 && o.B >= -90 {
			// percent of the volume
			o.B = x.size / 100 * -o.B
			if o.B > 48<<20 {
				o.B = 48 << 20
			}
			x.res.Probe("volume-share-write")
		} else {
			if o.B < 0 {
				o.B = 0
			}
			if o.B > 4<<20 {
				o.B = 4 << 20
			}
		}
		data := core.PatternBytes(uint64(o.C)+uint64(x.opIdx), o.B)
		off := int64(0)
		cur := int64(len(n.data))
		if o.K == "append" {
			x.trig = "append"
			off = cur
		} else {
			switch o.A & 3 {
			case 1:
				off = cur / 2
			case 2:
				off = cur
			case 3:
				off = cur + o.D
			}
			x.trig = "write(" + offClass(o.A) + ")"
		}
		if cur > 0 {
			x.trig += "[nonempty]"
		}
		if len(data) == 0 {
			x.trig += "[len0]"
		}
		x.locus = lib + ".(*File).Write"
		return x.writeFile(o.P, off, data, o.K == "append")
	case "trunc":
		n := m.get(o.P)
		if n == nil || n.dir || n.tainted || (x.attr[m.key(o.P)] != nil && x.attr[m.key(o.P)].link != "") {
			return nil
		}
		if o.B < 0 || o.B > 4<<20 {
			o.B = 4096
		}
		x.trig, x.locus = "trunc", lib+".(*FileSystem).OpenFile"
		data := core.PatternBytes(uint64(o.C)+uint64(x.opIdx), o.B)
		var f filesystem.File
		var err error
		var wn int
		if v := x.call(func() {
			f, err = x.fs.OpenFile(o.P, os.O_RDWR|os.O_TRUNC)
			if err == nil && len(data) > 0 {
				wn, err = f.Write(data)
			}
			if f != nil {
				f.Close()
			}
		}); v != nil {
			return v
		}
		if err != nil {
			x.lastErr = true
			x.res.Probe("op-refused")
			x.resync(o.P)
			return nil
		}
		if wn != len(data) {
			return x.viol(x.pfx()+"write-count", fmt.Sprintf("Write after a truncating open returned n=%d err=nil for %d bytes", wn, len(data)))
		}
		n.data = append([]byte(nil), data...)
		x.mutated = true
		x.res.Probe("truncating-open")
	case "fillup":
		if x.size > 48<<20 {
			return nil // filling is for small volumes
		}
		if n := m.get("fill"); n != nil && (!n.dir || n.tainted) {
			return nil
		}
		x.trig, x.locus = "fillup", lib+".(*FileSystem).allocateExtents"
		if m.get("fill") == nil {
			var err error
			if v := x.call(func() { err = x.fs.Mkdir("fill") }); v != nil {
				return v
			}
			if err != nil {
				x.lastErr = true
				x.resync("fill")
				return nil
			}
			m.put("fill", &mnode{dir: true})
			x.mutated = true
		}
		// sizes are tried from large to small: when one is refused the next smaller one takes over, until not
		// even a one-block file fits any more - only then is the last block of the volume in use
		ladder := []int64{3 << 20, 1 << 20, 300000, 65536, 5000, 1024, 100}
		var made []string
		for round := 0; round < 2; round++ {
			rung := int(o.A) % 3
			for i := 0; i < 400 && rung < len(ladder); i++ {
				x.seq++
				p := fmt.Sprintf("fill/f%04d.bin", x.seq)
				ok, v := x.createFile(p)
				if v != nil {
					return v
				}
				if !ok {
					break // no inode or no room for the entry
				}
				data := core.PatternBytes(uint64(o.A)+uint64(x.seq), ladder[rung]+int64(i%3))
				x.lastErr = false // (it is only cleared at the start of a step: one refusal must not count for every later file)
				if v := x.writeFile(p, 0, data, false); v != nil {
					return v
				}
				if x.lastErr {
					x.res.Probe("fill-reached-refusal")
					rung++
					continue
				}
				made = append(made, p)
			}
			if round == 0 {
				// release every other file and fill the gaps with the next round
				for k := 0; k < len(made); k += 2 {
					var err error
					p := made[k]
					if v := x.call(func() { err = x.fs.Remove(p) }); v != nil {
						return v
					}
					if err != nil {
						x.resync(p)
						continue
					}
					m.del(p)
					x.mutated = true
				}
			}
		}
	case "squeeze":
		// a volume with exactly one free block and a directory whose last block is full: whatever is created in that
		// directory takes the block for itself and is then refused for want of room for its entry - the block and
		// the inode have to go back
		if x.size > 48<<20 {
			return nil
		}
		if m.get("SQ1.BLK") == nil {
			if ok, v := x.createFile("SQ1.BLK"); v != nil || !ok {
				return v
			}
			if v := x.writeFile("SQ1.BLK", 0, []byte("one block\n"), false); v != nil || x.lastErr {
				return v
			}
		}
		// (a directory of its own, made while there is room: its one block fills up with entries below)
		if v := x.step(core.Op{K: "mkdir", P: "sq"}); v != nil {
			return v
		}
		if v := x.step(core.Op{K: "fillup", A: o.A}); v != nil {
			return v
		}
		if n := m.get("sq"); n == nil || !n.dir || n.tainted {
			return nil
		}
		for i := 0; i < 1200; i++ {
			x.seq++
			ok, v := x.createFile(fmt.Sprintf("sq/e%04d", x.seq))
			if v != nil {
				return v
			}
			if !ok {
				x.res.Probe("directory-cannot-grow")
				break
			}
		}
		if v := x.step(core.Op{K: "remove", P: "SQ1.BLK"}); v != nil {
			return v
		}
		for _, sub := range []core.Op{{K: "mkdir", P: "sq/sqdir"}, {K: "symlink", P: "sq/sqlnk", B: 200}, {K: "write", P: "sq/sqnew", A: 0, B: 10, C: o.A}} {
			if v := x.step(sub); v != nil {
				return v
			}
		}
		x.trig = "squeeze"
	case "symlink":
		if !parentOK(o.P) || m.get(o.P) != nil {
			return nil
		}
		tl := o.B
		if tl < 1 {
			tl = 1
		}
		if tl > 4095 {
			tl = 4095
		}
		target := strings.Repeat("t", int(tl))
		if o.A == 1 && tl > 1 {
			target = "/" + target[1:]
		}
		x.trig, x.locus = fmt.Sprintf("symlink(%s)", map[bool]string{true: "inline", false: "block"}[tl < 60]), lib+".(*FileSystem).Symlink"
		var err error
		if v := x.call(func() { err = x.fs.Symlink(target, o.P) }); v != nil {
			return v
		}
		if err != nil {
			x.lastErr = true
			x.res.Probe("op-refused")
			x.resync(o.P)
			return nil
		}
		m.put(o.P, &mnode{})
		x.attr[m.key(o.P)] = &ext4Attr{link: target}
		x.mutated = true
		x.res.Probe("symlink")
	case "remove":
		n := m.get(o.P)
		if n == nil || n.tainted || m.key(o.P) == "" {
			return nil
		}
		kids := m.children(o.P)
		x.trig = "remove(file)"
		if n.dir {
			x.trig = "remove(emptydir)"
			if len(kids) > 0 {
				x.trig = "remove(nonemptydir)"
			}
		}
		x.locus = lib + ".(*FileSystem).Remove"
		var err error
		if v := x.call(func() { err = x.fs.Remove(o.P) }); v != nil {
			return v
		}
		if err != nil {
			x.lastErr = true
			x.res.Probe("op-refused")
			if len(kids) == 0 {
				x.resync(o.P)
			}
			return nil
		}
		if len(kids) > 0 {
			return x.viol("C04.removed-nonempty-dir", fmt.Sprintf("Remove(%q) succeeded although the directory holds %v", o.P, kids))
		}
		m.del(o.P)
		delete(x.attr, m.key(o.P))
		x.mutated = true
		x.res.Probe("remove")
	case "chmod", "chown", "chtimes":
		n := m.get(o.P)
		if n == nil || n.tainted {
			return nil
		}
		k := m.key(o.P)
		a := x.attr[k]
		if a != nil && a.link != "" {
			return nil // Chmod/Chown follow links; keep the model simple
		}
		if a == nil {
			a = &ext4Attr{mode: 1 << 31, uid: 1<<32 - 1}
			x.attr[k] = a
		}
		var err error
		switch o.K {
		case "chmod":
			bits := o.A & 0o7777
			mode := os.FileMode(bits & 0o777)
			if bits&0o4000 != 0 {
				mode |= os.ModeSetuid
			}
			if bits&0o2000 != 0 {
				mode |= os.ModeSetgid
			}
			if bits&0o1000 != 0 {
				mode |= os.ModeSticky
			}
			x.trig, x.locus = "chmod", lib+".(*FileSystem).Chmod"
			if v := x.call(func() { err = x.fs.Chmod(o.P, mode) }); v != nil {
				return v
			}
			if err == nil {
				a.mode = mode
				a.attrKnown = true
			}
		case "chown":
			x.trig, x.locus = "chown", lib+".(*FileSystem).Chown"
			if a.uid == 1<<32-1 && (o.A == -1 || o.B == -1) {
				return nil // "keep" on an owner the model does not know yet
			}
			if v := x.call(func() { err = x.fs.Chown(o.P, int(o.A), int(o.B)) }); v != nil {
				return v
			}
			if err == nil {
				if o.A != -1 {
					a.uid = uint32(o.A)
				}
				if o.B != -1 {
					a.gid = uint32(o.B)
				}
				a.attrKnown = true
			}
		case "chtimes":
			x.trig, x.locus = "chtimes", lib+".(*FileSystem).Chtimes"
			ct, at, mt := time.Unix(o.A, o.D).UTC(), time.Unix(o.B, o.D/2).UTC(), time.Unix(o.C, 0).UTC()
			if v := x.call(func() { err = x.fs.Chtimes(o.P, ct, at, mt) }); v != nil {
				return v
			}
			if err == nil {
				a.ct, a.atime, a.mtime = ct, at, mt
				a.timesKnown = true
			}
		}
		if err != nil {
			x.lastErr = true
			x.res.Probe("op-refused")
			return nil
		}
		x.mutated = true
		x.res.Probe("attr-change")
	case "reopen":
		x.trig, x.locus = "reopen", lib+".Read"
		if o.A == 1 {
			var nfs *ext4.FileSystem
			var err error
			if v := x.call(func() { nfs, err = ext4.Read(x.d, x.size, x.start, 512) }); v != nil {
				return v
			}
			if err != nil {
				return x.viol("C04.reopen.open", "re-opening the image failed: "+err.Error())
			}
			x.fs = nfs
		}
		x.res.Probe("reopen")
	case "manyfiles":
		par := m.get(o.P)
		if par == nil || !par.dir || par.tainted {
			return nil
		}
		x.trig, x.locus = "manyfiles", lib+".(*FileSystem).mkDirEntry"
		n := o.A
		if n > 400 {
			n = 400
		}
		var made []string
		for i := int64(0); i < n; i++ {
			x.seq++
			name := fmt.Sprintf("many-%04d.file", x.seq)
			if o.B == 1 {
				// names of more than 200 bytes, four to a 1 KiB block, and a block of data written to each file right
				// after it is made: the directory's blocks end up scattered between the files' blocks
				name = fmt.Sprintf("many-%04d-", x.seq) + strings.Repeat("n", 230) + ".f"
			}
			p := strings.Trim(o.P+"/"+name, "/")
			ok, v := x.createFile(p)
			if v != nil {
				return v
			}
			if !ok {
				break
			}
			made = append(made, p)
			if o.B == 1 {
				x.lastErr = false
				if v := x.writeFile(p, 0, core.PatternBytes(uint64(x.seq), 700), false); v != nil {
					return v
				}
				if x.lastErr {
					break
				}
			}
		}
		x.res.Probe("dir-growth")
		if o.C == 1 {
			// ... and the directory shrinks again: three quarters of what was just made are removed
			for k, p := range made {
				if k%4 == 3 {
					continue
				}
				if v := x.step(core.Op{K: "remove", P: p}); v != nil {
					return v
				}
			}
			x.trig = "manyfiles(shrink)"
			x.res.Probe("dir-shrink")
		}
	case "fragment":
		// interleaved appends to two files so that their extents fragment
		par := m.get(o.P)
		if par == nil || !par.dir || par.tainted {
			return nil
		}
		x.trig, x.locus = "fragment", lib+".(*File).Write"
		x.seq++
		pa := strings.Trim(o.P+"/"+fmt.Sprintf("fragA%d", x.seq), "/")
		pb := strings.Trim(o.P+"/"+fmt.Sprintf("fragB%d", x.seq), "/")
		for _, p := range []string{pa, pb} {
			ok, v := x.createFile(p)
			if v != nil || !ok {
				return v
			}
		}
		rounds := o.A
		if o.C == 1 {
			// deep variant: enough extents per file for an extent tree with interior nodes (more than 4 leaves)
			if rounds > 1100 {
				rounds = 1100
			}
			x.res.Probe("extent-tree-depth2")
		} else if rounds > 20 {
			rounds = 20
		}
		chunk := o.B
		if chunk < 1 {
			chunk = 1
		}
		if chunk > 64<<10 {
			chunk = 64 << 10
		}
		for r := int64(0); r < rounds; r++ {
			for _, p := range []string{pa, pb} {
				n := m.get(p)
				if n == nil || n.tainted {
					return nil
				}
				data := core.PatternBytes(uint64(x.seq)*31+uint64(r), chunk)
				if v := x.writeFile(p, int64(len(n.data)), data, true); v != nil {
					return v
				}
			}
		}
		x.res.Probe("fragmented-extents")
	}
	return nil
}

// e2fsck runs the reference checker on the durable bytes. Returns (exit code, first lines of output).
func e2fsckImage(d *simdisk.Disk, start, size int64) (int, string, error) {
	img := filepath.Join(scratch(), fmt.Sprintf("e2fsck-%d.img", os.Getpid()))
	if err := d.DumpTo(img, start, size); err != nil {
		return -1, "", err
	}
	defer os.Remove(img)
	if keep := os.Getenv("VERIF_KEEPIMG"); keep != "" {
		// (diagnosis: the image handed to the checker last stays behind under this name)
		_ = d.DumpTo(keep, start, size)
	}
	cmd := exec.Command("/usr/sbin/e2fsck", "-f", "-n", img)
	out, err := cmd.CombinedOutput()
	code := 0
	if err != nil {
		if ee, ok := err.(*exec.ExitError); ok {
			code = ee.ExitCode()
		} else {
			return -1, "", err
		}
	}
	return code, string(out), nil
}

// debugfsCompare extracts the tree with e2fsprogs' own reader (debugfs rdump) and compares files and
// symlink targets with the model.
func (x *ext4Run) debugfsCompare() *core.Violation {
	img := filepath.Join(scratch(), fmt.Sprintf("debugfs-%d.img", os.Getpid()))
	out := newScratchSub("rdump")
	defer os.RemoveAll(out)
	if err := x.d.DumpTo(img, x.start, x.size); err != nil {
		panic(err)
	}
	defer os.Remove(img)
	cmd := exec.Command("/usr/sbin/debugfs", "-R", "rdump / "+out, img)
	if b, err := cmd.CombinedOutput(); err != nil {
		panic(fmt.Sprintf("debugfs not runnable: %v %s", err, b))
	}
	x.res.Probe("debugfs-rdump")
	for _, p := range x.m.paths() {
		n := x.m.nodes[p]
		if p == "" || n.tainted {
			continue
		}
		hp := filepath.Join(out, filepath.FromSlash(strings.Trim(parentOf(p)+"/"+n.name, "/")))
		// rebuild the real-cased path
		hp = filepath.Join(out, filepath.FromSlash(x.realPath(p)))
		st, err := os.Lstat(hp)
		if err != nil {
			return x.viol("C05.debugfs-missing", fmt.Sprintf("debugfs rdump did not extract %q: %v", p, err))
		}
		a := x.attr[p]
		switch {
		case a != nil && a.link != "":
			tgt, err := os.Readlink(hp)
			if err != nil || tgt != a.link {
				return x.viol("C05.debugfs-link-target", fmt.Sprintf("%q: debugfs extracts link target %q (%v), written %q", p, clip(tgt, 60), err, clip(a.link, 60)))
			}
		case n.dir:
			if !st.IsDir() {
				return x.viol("C05.debugfs-kind", fmt.Sprintf("%q extracted as a non-directory", p))
			}
		default:
			data, err := os.ReadFile(hp)
			if err != nil || !bytes.Equal(data, n.data) {
				return x.viol("C05.debugfs-content", fmt.Sprintf("%q: debugfs extracts different content: err=%v %s", p, err, diffDesc(data, n.data)))
			}
		}
	}
	return nil
}

// realPath returns the case-preserved path of a model key.
func (x *ext4Run) realPath(key string) string {
	if key == "" {
		return ""
	}
	par := parentOf(key)
	n := x.m.nodes[key]
	if par == "" {
		return n.name
	}
	return x.realPath(par) + "/" + n.name
}

// e2fsckClass extracts a stable class from e2fsck output: the first few distinct problem kinds.
func e2fsckClass(out string) string {
	kinds := []string{}
	add := func(k string) {
		for _, x := range kinds {
			if x == k {
				return
			}
		}
		if len(kinds) < 3 {
			kinds = append(kinds, k)
		}
	}
	for _, ln := range strings.Split(out, "\n") {
		l := strings.ToLower(ln)
		switch {
		case strings.Contains(l, "bitmap differences"):
			if strings.Contains(l, "block") {
				add("block-bitmap")
			} else {
				add("inode-bitmap")
			}
		case strings.Contains(l, "free blocks count wrong"):
			add("free-blocks-count")
		case strings.Contains(l, "free inodes count wrong"):
			add("free-inodes-count")
		case strings.Contains(l, "directories count wrong"):
			add("dir-count")
		case strings.Contains(l, "unattached inode"):
			add("unattached-inode")
		case strings.Contains(l, "ref count is"):
			add("link-count")
		case strings.Contains(l, "checksum"):
			add("checksum")
		case strings.Contains(l, "i_blocks is"):
			add("i_blocks")
		case strings.Contains(l, "i_size is"):
			add("i_size")
		case strings.Contains(l, "extent"):
			add("extent-tree")
		case strings.Contains(l, "directory corrupted") || strings.Contains(l, "directory entry"):
			add("dir-entry")
		case strings.Contains(l, "superblock") && (strings.Contains(l, "bad") || strings.Contains(l, "corrupt") || strings.Contains(l, "invalid")):
			add("superblock")
		case strings.Contains(l, "group descriptor"):
			add("group-descriptor")
		case strings.Contains(l, "journal"):
			if strings.Contains(l, "invalid") || strings.Contains(l, "corrupt") || strings.Contains(l, "bad") {
				add("journal")
			}
		case strings.Contains(l, "padding at end of") || strings.Contains(l, "padding"):
			add("bitmap-padding")
		case strings.Contains(l, "multiply-claimed") || strings.Contains(l, "duplicate"):
			add("multiply-claimed")
		case strings.Contains(l, "illegal block") || strings.Contains(l, "illegal"):
			add("illegal-block")
		}
	}
	if len(kinds) == 0 {
		return "other"
	}
	sort.Strings(kinds)
	return strings.Join(kinds, "+")
}

func cfgClass(t *core.Trace) string {
	var f []string
	if t.I("sparse2") == 1 {
		f = append(f, "sparse2")
	}
	if t.I("flexbg") == 0 {
		f = append(f, "noflexbg")
	}
	if t.I("b64") == 1 {
		f = append(f, "64bit")
	}
	if t.I("bpg") > 0 {
		f = append(f, "bpg")
	}
	if v := t.I("logflex"); v > 0 && v <= 5 && t.I("flexbg") != 0 {
		f = append(f, "flexsize")
	}
	if t.I("icount") > 0 || t.I("iratio") > 0 {
		f = append(f, "inodes")
	}
	if len(f) == 0 {
		return "default"
	}
	return strings.Join(f, ",")
}

// execExt4History runs an ext4 history and evaluates the clauses of prop (C04, C05, C03).
func execExt4History(t *core.Trace, prop string) (*core.Result, *simdisk.Disk) {
	res := core.NewResult()
	size, start := t.I("size"), t.I("start")
	if size < 1<<20 {
		size = 1 << 20
	}
	if size > 512<<20 {
		size = 512 << 20
	}
	if start < 0 {
		start = 0
	}
	tail := int64(1 << 20)
	d := simdisk.New(start + size + tail)
	if start > 0 {
		nb := start
		if nb > 1<<20 {
			nb = 1 << 20
		}
		d.FillNoise(start-nb, nb, t.Seed^0xabc)
	}
	d.FillNoise(start+size, tail, t.Seed^0xdef)
	x := &ext4Run{t: t, res: res, prop: prop, d: d, m: newTree(false), attr: map[string]*ext4Attr{}, size: size, start: start, opIdx: -1}
	x.trig, x.locus = "create-fs("+cfgClass(t)+")", "filesystem/ext4.Create"
	d.SetGuard(simdisk.Extent{Off: start, Len: size})
	guardCheck := func() *core.Violation {
		g := d.GuardHit
		if g == nil {
			g = d.BeyondEnd
		}
		if g != nil && x.want("C03.fs-write-outside-range") {
			return &core.Violation{Clause: "C03.fs-write-outside-range", Trigger: "ext4:" + x.trig, Locus: g.Locus, OpIndex: x.opIdx,
				Detail: fmt.Sprintf("ext4 volume was given [%d,+%d) but wrote [%d,+%d)", start, size, g.Off, g.Len)}
		}
		return nil
	}
	var fs *ext4.FileSystem
	var err error
	if v := x.call(func() { fs, err = ext4.Create(d, size, start, 512, ext4Params(t)) }); v != nil {
		if v.Clause != "other.panic" {
			res.V = v
		}
		return res, d
	}
	if v := guardCheck(); v != nil {
		res.V = v
		return res, d
	}
	if err != nil {
		res.Evals = 1
		res.Sample = fmt.Sprintf("ext4 Create(size=%d, %s) refused: %v", size, cfgClass(t), err)
		res.Probe("create-refused")
		return res, d
	}
	x.fs = fs
	res.Probe("created")
	if t.I("journal") == 1 {
		res.Probe("journal")
	}
	if t.I("csum") == 1 {
		res.Probe("metadata-csum")
	}
	fsck := func() *core.Violation {
		if !x.want("C05.x") {
			return nil
		}
		code, out, err := e2fsckImage(d, start, size)
		if err != nil {
			panic("e2fsck not runnable: " + err.Error())
		}
		res.ProbeN("e2fsck-runs", 1)
		if code != 0 {
			return &core.Violation{Clause: "C05.e2fsck-" + e2fsckClass(out), Trigger: x.trig, Locus: x.locus, OpIndex: x.opIdx,
				Detail: fmt.Sprintf("e2fsck -f -n exits %d after %s (volume %d bytes, %s):\n%s", code, x.trig, size, cfgClass(t), firstLinesOf(out, 25))}
		}
		return nil
	}
	if v := fsck(); v != nil {
		res.V = v
		return res, d
	}
	hist := core.HashStr(cfgClass(t))
	for i, o := range t.Ops {
		x.opIdx = i
		x.trig, x.locus = o.K, "filesystem/ext4"
		x.mutated = false
		v := x.step(o)
		res.Steps++
		if v == nil {
			v = guardCheck()
		}
		if v != nil && v.Clause == "other.panic" {
			break
		}
		if v != nil && !x.want(v.Clause) {
			// another property's clause: the state may be damaged, stop this run quietly
			if strings.HasSuffix(v.Clause, ".panic") || strings.Contains(v.Clause, "readback") || strings.Contains(v.Clause, "content") {
				break
			}
			v = nil
		}
		if v == nil {
			v = fsck()
		}
		if v == nil && x.want("C05.x") && (i == len(t.Ops)-1 || i%4 == 3) {
			v = x.debugfsCompare()
		}
		if v == nil && (x.want("C04.x") || x.want("C19.x")) {
			phase := ""
			if x.lastErr {
				phase = "after-error."
			}
			v = x.compare(x.fs, phase)
			if v == nil && (o.K == "reopen" || i == len(t.Ops)-1 || i%4 == 3) {
				var nfs *ext4.FileSystem
				var err error
				clone := d.Clone()
				if pv := x.call(func() { nfs, err = ext4.Read(clone, size, start, 512) }); pv != nil {
					v = pv
				} else if err != nil {
					v = x.viol(x.pfx()+"reopen.open", "re-opening the image from its bytes failed: "+err.Error())
				} else {
					v = x.compare(nfs, "reopen.")
				}
			}
		}
		if v != nil && x.want(v.Clause) {
			res.V = v
			return res, d
		}
		if x.lastErr {
			hist = core.Mix(hist, core.HashStr(o.K), 1)
		} else {
			hist = core.Mix(hist, core.HashStr(x.trig), 0)
		}
	}
	res.DevOps = d.St.Reads + d.St.Writes
	res.Evals = 1
	res.Hashes = append(res.Hashes, hist)
	res.Sample = t.Summary()
	return res, d
}
