package props

import (
	"fmt"
	"strings"

	"dsim/core"
	"dsim/indep"
	"dsim/simdisk"

	"github.com/diskfs/go-diskfs/disk"
	"github.com/diskfs/go-diskfs/partition"
	"github.com/diskfs/go-diskfs/partition/gpt"
	"github.com/diskfs/go-diskfs/partition/mbr"
	"github.com/google/uuid"
)

// C02 — Partition tables read back as written and are valid on disk.
// The same executor serves the table clause of C03 (write extents) — each property reports
// only its own clauses.
type c02 struct{}

func init() { core.Register(c02{}) }

func (c02) ID() string    { return "C02" }
func (c02) Level() string { return "exploration" }
func (c02) Rule() string {
	return "one evaluation = one table written in a history of 1..4 Disk.Partition/Table.Write calls on one simulated disk (blank or noise-filled, 512/4096-byte sectors, sizes up to 3 TiB sparse), power-cycled at return (only synced writes survive for GPT), then read back by gpt.Read/mbr.Read/partition.Read/Disk.GetPartition and by an independent parser; distinct = distinct canonical (table, geometry, predecessor kind); non-trivial = table with >=1 partition or written over a previous table"
}
func (c02) Assumptions() []string {
	return []string{
		"tables are drawn inside the stated domain: GPT names <=36 UTF-16 units, indices 1..128 distinct, start>=1; MBR <=4 entries",
		"MBR written over a stale GPT is judged with mbr.Read only (partition.Read typing is not demanded, DESIGN §5 C02)",
		"GPT Write is durable at return (it promises sync); MBR Write does not sync, so the image at return is used",
	}
}
func (c02) Components() map[string][]string {
	return map[string][]string{
		"real": {"partition/gpt", "partition/mbr", "partition.Read", "disk.Disk.Partition/GetPartition", "google/uuid (entropy replaced by seeded reader)"},
		"stub": {"block device, write cache and power cycle (SimDisk)", "independent GPT/MBR parser"},
	}
}
func (c02) ProbeNames() []string {
	return []string{"gpt", "mbr", "rewrite-over-other-kind", "auto-guid", "sector4096", "over-2TiB", "non-bmp-name", "128-entries", "sparse-index", "read-modify-write"}
}
func (c02) Budget(tier string) (int, int, int) {
	if tier == "thorough" {
		return 600, 1 << 30, 120
	}
	return 30, 1 << 30, 60
}

func genTableHistory(r *core.Rng, tier string, idx int) *core.Trace {
	t := &core.Trace{Cfg: map[string]int64{}, CfgS: map[string]string{}}
	lss := int64(512)
	if r.Chance(35) {
		lss = 4096
	}
	var size int64
	switch r.PickW(45, 25, 15, 8, 7) {
	case 0:
		size = r.Range(1, 8) << 20
	case 1:
		size = r.Range(8, 512) << 20
	case 2:
		size = (r.Range(1, 32) << 20) + lss*r.Range(1, 2000)
	case 3: // near-minimum: room for little more than the structures
		size = lss * r.Range(70, 200)
	case 4:
		size = (2 << 40) + (r.Range(0, 2048) << 30) + lss*r.Range(0, 9)
	}
	t.Cfg["size"] = size
	t.Cfg["lss"] = lss
	t.Cfg["pss"] = core.PickOf[int64](r, 512, 4096)
	t.Cfg["noise"] = int64(r.Intn(2))
	sectors := uint64(size / lss)
	n := 1 + r.PickW(60, 25, 10, 5)
	for i := 0; i < n; i++ {
		via := int64(r.Intn(2))
		if r.Chance(65) {
			g := genGPT(r, sectors, int(lss), 128, true)
			t.Ops = append(t.Ops, core.Op{K: "gpt", S: g.GUID, A: via, B: int64(r.Intn(2))}) // B=1: modify the table read from the disk instead of building a fresh one
			t.Ops = append(t.Ops, g.ops("gp")...)
		} else {
			m := genMBR(r, sectors)
			t.Ops = append(t.Ops, core.Op{K: "mbr", A: via, B: int64(r.PickW(85, 15)), C: int64(r.Intn(2))})
			t.Ops = append(t.Ops, m.ops("mp")...)
		}
	}
	return t
}

func (c02) Gen(r *core.Rng, tier string, idx int) *core.Trace { return genTableHistory(r, tier, idx) }

func (c02) Exec(t *core.Trace) *core.Result { return execTableHistory(t, "C02") }

type seededReader struct{ r *core.Rng }

func (s seededReader) Read(p []byte) (int, error) {
	for i := range p {
		p[i] = byte(s.r.U64())
	}
	return len(p), nil
}

// zeroExtents blanks the given extents in a clone so that "everything else" can be compared.
func hashOutside(d *simdisk.Disk, ext [][2]int64) [32]byte {
	var e []simdisk.Extent
	for _, x := range ext {
		e = append(e, simdisk.Extent{Off: x[0], Len: x[1]})
	}
	return d.HashExcept(e)
}

func execTableHistory(t *core.Trace, prop string) *core.Result {
	res := core.NewResult()
	size, lss, pss := t.I("size"), t.I("lss"), t.I("pss")
	if lss != 512 && lss != 4096 {
		lss = 512
	}
	if pss == 0 {
		pss = 512
	}
	if size < 70*lss {
		size = 70 * lss
	}
	d := simdisk.New(size)
	if t.I("noise") == 1 {
		// noise everywhere a table or boot code could be, and in partition data areas nearby
		n := int64(1 << 20)
		if n > size {
			n = size
		}
		d.FillNoise(0, n, t.Seed)
		d.FillNoise(size-n, n, t.Seed+1)
	}
	uuid.SetRand(seededReader{core.NewRng(core.Mix(t.Seed, 0xE27))})
	defer uuid.SetRand(nil)

	prevKind := ""
	staleGPT := false // a GPT was written at some point: MBR writes do not erase it (and must not, C03)
	opIndex := 0
	viol := func(i int, clause, trig, locus, detail string) *core.Result {
		res.V = &core.Violation{Clause: clause, Trigger: trig, Locus: locus, Detail: detail, OpIndex: i}
		return res
	}
	want := func(clause string) bool { return strings.HasPrefix(clause, prop+".") }
	if lss == 4096 {
		res.Probe("sector4096")
	}
	if size > 2<<40 {
		res.Probe("over-2TiB")
	}
	for i := 0; i < len(t.Ops); i++ {
		o := t.Ops[i]
		if o.K != "gpt" && o.K != "mbr" {
			continue
		}
		j := i + 1
		for j < len(t.Ops) && (t.Ops[j].K == "gp" || t.Ops[j].K == "mp") {
			j++
		}
		group := t.Ops[i+1 : j]
		last := j - 1
		opIndex = last
		res.Steps++
		before := d.Clone()
		d.Events = nil
		d.LogEvents, d.RecordData = true, true
		dk := &disk.Disk{Backend: d, Size: size, LogicalBlocksize: lss, PhysicalBlocksize: pss}
		if o.K == "gpt" {
			res.Probe("gpt")
			spec := gptFromOps(group, "gp", o.S)
			ext := indep.GPTExtents(size, lss)
			var g []simdisk.Extent
			for _, e := range ext {
				g = append(g, simdisk.Extent{Off: e[0], Len: e[1]})
			}
			d.SetGuard(g...)
			tb := spec.table(int(lss), int(pss))
			var err error
			trig := "gpt.Write"
			if o.B == 1 && prevKind == "gpt" {
				// read-modify-write: the table object comes from gpt.Read and is given the new content
				var cur *gpt.Table
				if pk, _, _, _ := core.Guard(func() { cur, err = gpt.Read(d, int(lss), int(pss)) }); !pk && err == nil && cur != nil {
					cur.Partitions, cur.ProtectiveMBR = tb.Partitions, tb.ProtectiveMBR
					if tb.GUID != "" {
						cur.GUID = tb.GUID // (a spec without a disk GUID keeps the one the disk has)
					}
					tb = cur
					trig = "gpt.Write(modified-read-table)"
					res.Probe("read-modify-write")
				}
				err = nil
			}
			if prevKind != "" && prevKind != "gpt" {
				trig = "gpt.Write(over-" + prevKind + ")"
				res.Probe("rewrite-over-other-kind")
			}
			if pk, pv, loc, _ := core.Guard(func() {
				if o.A == 1 {
					err = dk.Partition(tb)
				} else {
					err = tb.Write(d, size)
				}
			}); pk {
				if want("C02.panic") {
					return viol(opIndex, "C02.panic", trig+":"+core.PanicClass(pv), loc, fmt.Sprintf("%v\nspec=%s", pv, spec.canon()))
				}
				return res
			}
			res.DevOps += int64(len(d.Events))
			if d.GuardHit != nil && want("C03.table-write-outside-extents") {
				return viol(opIndex, "C03.table-write-outside-extents", trig, d.GuardHit.Locus, fmt.Sprintf("GPT write touched [%d,+%d) outside the table's own sectors (disk %d, lss %d)", d.GuardHit.Off, d.GuardHit.Len, size, lss))
			}
			if d.BeyondEnd != nil && want("C03.table-write-outside-extents") {
				return viol(opIndex, "C03.table-write-outside-extents", trig, d.BeyondEnd.Locus, fmt.Sprintf("GPT write at [%d,+%d) beyond the end of the %d-byte disk", d.BeyondEnd.Off, d.BeyondEnd.Len, size))
			}
			d.ClearGuard()
			if err != nil {
				// refused: device must be unchanged outside the table extents at least
				if hashOutside(before, ext) != hashOutside(d, ext) && want("C03.table-write-outside-extents") {
					return viol(opIndex, "C03.table-write-outside-extents", trig+"(refused)", "partition/gpt.(*Table).Write", "refused GPT write changed bytes outside the table sectors")
				}
				res.Evals++
				continue
			}
			if hashOutside(before, ext) != hashOutside(d, ext) && want("C03.table-write-outside-extents") {
				return viol(opIndex, "C03.table-write-outside-extents", trig, "partition/gpt.(*Table).Write", "bytes outside the GPT's own sectors changed (boot code or partition data)")
			}
			// power cycle: only synced writes survive
			img := before.Clone()
			lastSync := -1
			for k, e := range d.Events {
				if e.Kind == simdisk.EvSync {
					lastSync = k
				}
			}
			for k, e := range d.Events {
				if e.Kind == simdisk.EvWrite && k < lastSync {
					img.Poke(e.Off, e.Data)
				}
			}
			res.Fault("power-cycle-at-return")
			res.Evals++
			if len(spec.Parts) > 0 || prevKind != "" {
				res.Hashes = append(res.Hashes, core.Mix(core.HashStr(spec.canon()), uint64(size), uint64(lss), core.HashStr(prevKind)))
			}
			if len(spec.Parts) == 128 {
				res.Probe("128-entries")
			}
			for _, p := range spec.Parts {
				if p.Index > len(spec.Parts) {
					res.Probe("sparse-index")
				}
				if nameUnits(p.Name) != len([]rune(p.Name)) {
					res.Probe("non-bmp-name")
				}
				if p.GUID == "" {
					res.Probe("auto-guid")
				}
			}
			if !want("C02.x") {
				prevKind = "gpt"
				staleGPT = true
				d = imgAsCurrent(img)
				continue
			}
			// (1) library read-back
			var rt *gpt.Table
			if pk, pv, loc, _ := core.Guard(func() { rt, err = gpt.Read(img, int(lss), int(pss)) }); pk {
				return viol(opIndex, "C02.panic", "gpt.Read:"+core.PanicClass(pv), loc, fmt.Sprint(pv))
			}
			wantCanon := spec.canon()
			if err != nil {
				return viol(opIndex, "C02.gpt-readback", trig, "partition/gpt.Read", fmt.Sprintf("gpt.Read of the durable bytes failed: %v\nspec=%s", err, wantCanon))
			}
			if got := canonOfTable(rt, spec); got != wantCanon {
				return viol(opIndex, "C02.gpt-readback", trig, "partition/gpt.Read", fmt.Sprintf("read back differs\nwant %s\ngot  %s", wantCanon, got))
			}
			if rt.RecoveredFromBackup {
				return viol(opIndex, "C02.gpt-readback", trig, "partition/gpt.Read", "completed write read back from the backup copy")
			}
			// auto GUIDs: what the written table says must be what is on disk, and not nil
			if spec.GUID == "" && (strings.ToUpper(tb.GUID) != strings.ToUpper(rt.GUID) || rt.GUID == "" || strings.HasPrefix(rt.GUID, "00000000-0000-0000-0000-0000")) {
				return viol(opIndex, "C02.gpt-readback", trig+"(auto-guid)", "partition/gpt.(*Table).Write", fmt.Sprintf("auto disk GUID: table says %q disk says %q", tb.GUID, rt.GUID))
			}
			var pt partition.Table
			if pk, pv, loc, _ := core.Guard(func() { pt, err = partition.Read(img, int(lss), int(pss)) }); pk {
				return viol(opIndex, "C02.panic", "partition.Read:"+core.PanicClass(pv), loc, fmt.Sprint(pv))
			}
			if err != nil || pt.Type() != "gpt" {
				return viol(opIndex, "C02.gpt-readback", trig, "partition.Read", fmt.Sprintf("partition.Read: err=%v type=%v", err, typeOf(pt)))
			}
			// Disk.GetPartition byte ranges (from the table just read)
			dk2 := &disk.Disk{Backend: img, Size: size, LogicalBlocksize: lss, PhysicalBlocksize: pss, Table: pt}
			for _, p := range spec.Parts {
				gp, err := dk2.GetPartition(p.Index)
				if err != nil {
					return viol(opIndex, "C02.byte-range", trig, "disk.(*Disk).GetPartition", fmt.Sprintf("partition %d not found: %v", p.Index, err))
				}
				ws, wz := int64(p.Start)*lss, int64(p.End-p.Start+1)*lss
				if gp.GetStart() != ws || gp.GetSize() != wz {
					return viol(opIndex, "C02.byte-range", trig, "partition/gpt.(*Partition).GetStart", fmt.Sprintf("partition %d: want start %d size %d, got start %d size %d (lss %d)", p.Index, ws, wz, gp.GetStart(), gp.GetSize(), lss))
				}
				// and from the table object that was written
				wp, err := dk.GetPartition(p.Index)
				if o.A == 1 && (err != nil || wp.GetStart() != ws || wp.GetSize() != wz) {
					return viol(opIndex, "C02.byte-range", trig+"(written-table)", "partition/gpt.(*Partition).GetStart", fmt.Sprintf("partition %d of the table object passed to Partition(): want %d+%d err=%v", p.Index, ws, wz, err))
				}
			}
			// (2) independent parser
			v := indep.ReadGPT(img, lss)
			if v.Primary == nil || v.Backup == nil {
				return viol(opIndex, "C02.gpt-invalid-on-disk", trig, "partition/gpt.(*Table).Write", fmt.Sprintf("independent parser: primary err=%v backup err=%v", v.PrimaryErr, v.BackupErr))
			}
			lastLBA := uint64(size/lss) - 1
			arr := uint64((128*128 + lss - 1) / lss)
			pr, bk := v.Primary, v.Backup
			var problems []string
			chk := func(ok bool, f string, a ...any) {
				if !ok {
					problems = append(problems, fmt.Sprintf(f, a...))
				}
			}
			chk(pr.AltLBA == lastLBA, "primary AlternateLBA %d != last LBA %d", pr.AltLBA, lastLBA)
			chk(bk.AltLBA == 1, "backup AlternateLBA %d != 1", bk.AltLBA)
			chk(pr.ArrayLBA == 2, "primary array LBA %d != 2", pr.ArrayLBA)
			chk(bk.ArrayLBA == lastLBA-arr, "backup array LBA %d != %d", bk.ArrayLBA, lastLBA-arr)
			chk(pr.DiskGUID == bk.DiskGUID, "disk GUID differs between copies")
			chk(pr.FirstUsable == bk.FirstUsable && pr.LastUsable == bk.LastUsable, "usable range differs between copies")
			chk(pr.Count == bk.Count && pr.EntrySize == bk.EntrySize && pr.ArrayCRC == bk.ArrayCRC, "array description differs between copies")
			chk(pr.FirstUsable >= 2+arr, "first usable LBA %d overlaps the primary array", pr.FirstUsable)
			chk(pr.LastUsable < bk.ArrayLBA, "last usable LBA %d overlaps the backup array at %d", pr.LastUsable, bk.ArrayLBA)
			wantProt := lastLBA
			if wantProt > 0xFFFFFFFF {
				wantProt = 0xFFFFFFFF
			}
			chk(v.ProtectiveOK, "protective MBR invalid: %s", v.ProtectiveErr)
			chk(uint64(v.ProtectiveSectors) == wantProt, "protective MBR covers %d sectors, want %d", v.ProtectiveSectors, wantProt)
			chk(canonOfIndep(pr, v.PrimaryEntries, spec) == wantCanon, "independent parser decodes a different table: %s", canonOfIndep(pr, v.PrimaryEntries, spec))
			chk(canonOfIndep(bk, v.BackupEntries, spec) == wantCanon, "backup array decodes differently")
			if len(problems) > 0 {
				return viol(opIndex, "C02.gpt-invalid-on-disk", trig+":"+firstWord(problems[0]), "partition/gpt.(*Table).Write", strings.Join(problems, "; ")+fmt.Sprintf("\ndisk %d bytes, lss %d; spec=%s", size, lss, wantCanon))
			}
			// (3) rewrite of the table that was read changes nothing
			img2 := img.Clone()
			h0 := img2.Hash()
			if pk, pv, loc, _ := core.Guard(func() { err = rt.Write(img2, size) }); pk {
				return viol(opIndex, "C02.panic", "rewrite:"+core.PanicClass(pv), loc, fmt.Sprint(pv))
			}
			if err != nil {
				return viol(opIndex, "C02.rewrite-changes-bytes", trig, "partition/gpt.(*Table).Write", "rewriting the table returned by Read failed: "+err.Error())
			}
			if img2.Hash() != h0 {
				return viol(opIndex, "C02.rewrite-changes-bytes", trig, "partition/gpt.(*Table).Write", "rewriting the table returned by Read changed the image")
			}
			prevKind = "gpt"
			staleGPT = true
			d = imgAsCurrent(img)
			continue
		}
		// ---- MBR ----
		res.Probe("mbr")
		spec := mbrFromOps(group, "mp")
		ext := [][2]int64{{446, 66}}
		d.SetGuard(simdisk.Extent{Off: 446, Len: 66})
		tb := spec.table(int(lss), int(pss))
		if o.B == 1 && !want("C02.x") {
			// (C03 only) a table object with more entries than an MBR holds - as after Read (always four entries)
			// plus one appended: whatever the library does with the surplus, it stays inside bytes 446..511
			for len(tb.Partitions) < 5+int(o.C%2) {
				tb.Partitions = append(tb.Partitions, &mbr.Partition{Type: mbr.Linux, Start: 2048 + uint32(len(tb.Partitions))*64, Size: 32})
			}
			res.Probe("mbr-surplus-entries")
		}
		var err error
		trig := "mbr.Write"
		if staleGPT {
			trig = "mbr.Write(over-gpt)"
			res.Probe("rewrite-over-other-kind")
		}
		if pk, pv, loc, _ := core.Guard(func() {
			if o.A == 1 {
				err = dk.Partition(tb)
			} else {
				err = tb.Write(d, size)
			}
		}); pk {
			if want("C02.panic") {
				return viol(opIndex, "C02.panic", trig+":"+core.PanicClass(pv), loc, fmt.Sprint(pv))
			}
			return res
		}
		res.DevOps += int64(len(d.Events))
		if d.GuardHit != nil && want("C03.table-write-outside-extents") {
			return viol(opIndex, "C03.table-write-outside-extents", trig, d.GuardHit.Locus, fmt.Sprintf("MBR write touched [%d,+%d): outside bytes 446..511", d.GuardHit.Off, d.GuardHit.Len))
		}
		d.ClearGuard()
		if hashOutside(before, ext) != hashOutside(d, ext) && want("C03.table-write-outside-extents") {
			return viol(opIndex, "C03.table-write-outside-extents", trig, "partition/mbr.(*Table).Write", "bytes outside the MBR entry area changed (boot code or partition data)")
		}
		res.Evals++
		if err != nil {
			continue
		}
		if len(spec.Parts) > 0 || prevKind != "" {
			res.Hashes = append(res.Hashes, core.Mix(core.HashStr(spec.canon()), uint64(size), uint64(lss), core.HashStr(prevKind)))
		}
		img := d.Clone()
		if !want("C02.x") {
			prevKind = "mbr"
			continue
		}
		var rt *mbr.Table
		if pk, pv, loc, _ := core.Guard(func() { rt, err = mbr.Read(img, int(lss), int(pss)) }); pk {
			return viol(opIndex, "C02.panic", "mbr.Read:"+core.PanicClass(pv), loc, fmt.Sprint(pv))
		}
		if err != nil {
			return viol(opIndex, "C02.mbr-readback", trig, "partition/mbr.Read", fmt.Sprintf("mbr.Read failed: %v; spec=%s", err, spec.canon()))
		}
		if got := canonOfMBR(rt); got != spec.canon() {
			return viol(opIndex, "C02.mbr-readback", trig, "partition/mbr.Read", fmt.Sprintf("want %s got %s", spec.canon(), got))
		}
		ents, ierr := indep.ReadMBR(img)
		if ierr != nil {
			return viol(opIndex, "C02.mbr-invalid-on-disk", trig, "partition/mbr.(*Table).Write", ierr.Error())
		}
		for k, e := range ents {
			var p mbrPart
			if k < len(spec.Parts) {
				p = spec.Parts[k]
			}
			wb := byte(0)
			if p.Bootable {
				wb = 0x80
			}
			if e.Bootable != wb || e.Type != p.Type || e.Start != p.Start || e.Sectors != p.Size {
				return viol(opIndex, "C02.mbr-invalid-on-disk", trig, "partition/mbr.(*Table).Write", fmt.Sprintf("slot %d on disk %+v, spec %+v", k+1, e, p))
			}
		}
		if !staleGPT {
			pt, err := partition.Read(img, int(lss), int(pss))
			if err != nil || pt.Type() != "mbr" {
				return viol(opIndex, "C02.mbr-readback", trig, "partition.Read", fmt.Sprintf("partition.Read: err=%v type=%s", err, typeOf(pt)))
			}
		}
		// byte ranges through Disk.GetPartition on a table read from disk
		dk2 := &disk.Disk{Backend: img, Size: size, LogicalBlocksize: lss, PhysicalBlocksize: pss, Table: rt}
		for k, p := range spec.Parts {
			gp, err := dk2.GetPartition(k + 1)
			if err != nil {
				return viol(opIndex, "C02.byte-range", trig, "disk.(*Disk).GetPartition", err.Error())
			}
			ws, wz := int64(p.Start)*lss, int64(p.Size)*lss
			if gp.GetStart() != ws || gp.GetSize() != wz {
				return viol(opIndex, "C02.byte-range", fmt.Sprintf("%s(lss=%d)", trig, lss), "partition/mbr.(*Partition).GetStart", fmt.Sprintf("partition %d: want start %d size %d, got start %d size %d (logical sector %d)", k+1, ws, wz, gp.GetStart(), gp.GetSize(), lss))
			}
		}
		// rewrite of the table read changes nothing
		img2 := img.Clone()
		h0 := img2.Hash()
		if err := rt.Write(img2, size); err != nil || img2.Hash() != h0 {
			return viol(opIndex, "C02.rewrite-changes-bytes", trig, "partition/mbr.(*Table).Write", fmt.Sprintf("rewriting the MBR returned by Read: err=%v changed=%v", err, img2.Hash() != h0))
		}
		prevKind = "mbr"
	}
	if res.Evals == 0 {
		res.Evals = 1
	}
	res.Sample = t.Summary()
	return res
}

// imgAsCurrent continues the history on the durable image (what survived the power cycle).
func imgAsCurrent(img *simdisk.Disk) *simdisk.Disk { return img.Clone() }

func typeOf(pt partition.Table) string {
	if pt == nil {
		return "<nil>"
	}
	return pt.Type()
}

func firstWord(s string) string {
	f := strings.Fields(s)
	if len(f) >= 2 {
		return f[0] + "-" + f[1]
	}
	return s
}
