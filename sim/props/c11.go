package props

import (
	"crypto/sha256"
	"encoding/binary"
	"fmt"
	"io"
	"os"
	"os/exec"
	"path/filepath"
	"strings"
	"time"

	"dsim/core"
	"dsim/indep"
	"dsim/simdisk"

	diskfs "github.com/diskfs/go-diskfs"
	"github.com/diskfs/go-diskfs/backend"
	"github.com/diskfs/go-diskfs/backend/file"
	"github.com/diskfs/go-diskfs/disk"
	"github.com/diskfs/go-diskfs/filesystem"
)

// C11 — Read-only access never modifies the image.
//
// One run = one image (a filesystem of a seeded kind, on the whole device or inside a GPT/MBR
// partition) attached read-only in one of four ways, and a seeded history interleaving every
// public reading call with every public mutating call. Mutating calls must return an error and
// the device must see no write; on a read-write attachment the reading calls must not write.
type c11 struct{}

func init() { core.Register(c11{}) }

func (c11) ID() string    { return "C11" }
func (c11) Level() string { return "exploration" }
func (c11) Rule() string {
	return "one evaluation = one call in a seeded history of reading calls (ReadDir, ReadFile, Stat, Open+Read, Label, GetPartitionTable, GetFilesystem, ReadPartitionContents) and mutating calls (Partition, WritePartitionContents, CreateFilesystem, Mkdir, OpenFile with write/create/append/truncate flags, Write, Rename, Remove, SetLabel, Chmod, Chown, Chtimes, Symlink) on an image of a seeded filesystem kind attached read-only via a backend whose Writable() fails, file.New(readOnly), file.OpenFromPath(readOnly) or diskfs.Open(ReadOnly), or attached read-write for the reading calls; distinct = distinct (kind, attachment, call sequence); non-trivial = at least one mutating call attempted"
}
func (c11) Assumptions() []string {
	return []string{
		"for the two OS-file attachments the operating system is the enforcer of read-only and the image hash is taken from the file",
		"'unchanged' = device write log empty and SHA-256 of the image equal before and after",
	}
}
func (c11) Components() map[string][]string {
	return map[string][]string{
		"real": {"backend/file (New, OpenFromPath)", "diskfs.Open / OpenBackend", "disk.Disk", "all six filesystem packages' mutating and reading entry points", "partition/gpt, partition/mbr"},
		"stub": {"block device with refusing Writable() and write log (SimDisk)", "host scratch file for the OS-enforced attachments"},
	}
}
func (c11) ProbeNames() []string {
	return []string{"attach-writable-fails", "attach-file.New-ro", "attach-OpenFromPath-ro", "attach-diskfs.Open-ro", "attach-rw-reads-only", "mutator-refused", "disk-level", "gpt-from-backup"}
}
func (c11) Budget(tier string) (int, int, int) {
	if tier == "thorough" {
		return 900, 1 << 30, 300
	}
	return 45, 1 << 30, 120
}

var c11Mutators = []string{"mkdir", "create", "openw", "opena", "opent", "openwo", "openwoc", "write", "rename", "remove", "setlabel", "chmod", "chown", "chtimes", "symlink", "partition", "writepart", "createfs"}
var c11Readers = []string{"gettable", "readdir", "readfile", "readfrag", "readempty", "stat", "openread", "label", "gettable", "getfs", "readpart", "readmissing", "openmissing", "statmissing", "readdirmissing"}

func (c11) Gen(r *core.Rng, tier string, idx int) *core.Trace {
	t := &core.Trace{Cfg: map[string]int64{}, CfgS: map[string]string{}}
	t.CfgS["kind"] = fsKinds[idx%len(fsKinds)]
	t.Cfg["attach"] = int64(r.PickW(35, 30, 10, 10, 15)) // 0 Writable fails, 1 file.New ro, 2 OpenFromPath ro, 3 diskfs.Open ro, 4 rw (reads only)
	t.Cfg["layout"] = int64(r.PickW(60, 20, 20))         // 0 whole device, 1 gpt partition, 2 mbr partition
	t.Cfg["sqcomp"] = int64(r.Intn(4))
	t.Cfg["gptbad"] = int64(r.PickW(65, 35)) // gpt layout: the primary header fails its CRC, the table comes from the backup copy
	// volumes as other implementations leave them: an empty FAT file that owns no cluster (what every other FAT
	// writer makes of an empty file), an ext4 superblock whose free-block summary lags behind the group
	// descriptors (what a volume looks like after an unclean shutdown) - legal, and tempting to "repair" on the way
	t.Cfg["foreign"] = int64(r.PickW(65, 35))
	n := 3 + r.Intn(25)
	for i := 0; i < n; i++ {
		if r.Chance(55) {
			t.Ops = append(t.Ops, core.Op{K: c11Mutators[r.Intn(len(c11Mutators))], A: int64(r.Intn(1000))})
		} else {
			t.Ops = append(t.Ops, core.Op{K: c11Readers[r.Intn(len(c11Readers))]})
		}
	}
	return t
}

func hashFile(p string) string {
	f, err := os.Open(p)
	if err != nil {
		return "ERR:" + err.Error()
	}
	defer f.Close()
	h := sha256.New()
	io.Copy(h, f)
	return fmt.Sprintf("%x", h.Sum(nil))
}

func (p c11) Exec(t *core.Trace) *core.Result {
	res := core.NewResult()
	kind := t.Sg("kind")
	ok := false
	for _, k := range fsKinds {
		if k == kind {
			ok = true
		}
	}
	if !ok {
		kind = "fat32"
	}
	layout := t.I("layout")
	attach := t.I("attach")
	start := int64(0)
	if layout != 0 {
		start = 1 << 20
	}
	content := core.PatternBytes(t.Seed, 3000)
	// (two files large enough to be written in interleaved rounds on ext4, so that they have more extents than an
	// inode holds, and an empty file, which in a FAT volume made by the library still owns a cluster)
	big := core.PatternBytes(t.Seed+1, 26000)
	tree := []imgEntry{{Path: "DIR", Dir: true}, {Path: "DIR/TARGET.DAT", Data: content}, {Path: "OTHER.BIN", Data: content[:700]}, {Path: "FRAG1.BIN", Data: big}, {Path: "DIR/FRAG2.BIN", Data: big[:21000]}, {Path: "EMPTY.DAT"}}
	var bi *builtImage
	var berr error
	if pk, _, _, _ := core.Guard(func() { bi, berr = buildImage(kind, tree, start, map[string]int64{"sqcomp": t.I("sqcomp"), "frag": 7}) }); pk || berr != nil {
		res.Evals = 1
		res.Probe("build-failed")
		return res
	}
	d := bi.D
	if t.I("foreign") == 1 {
		switch {
		case strings.HasPrefix(kind, "fat") && t.Seed&2 == 2:
			// the second copy of the FAT differs from the first in an entry nobody uses (a volume that lost power
			// between the two updates): a reader may refuse it or go by the first copy, it does not write
			if rep := indep.CheckFAT(d, start, bi.Size, map[string]int{"fat12": 12, "fat16": 16, "fat32": 32}[kind]); len(rep.Problems) == 0 && rep.FATBytes > 8 {
				o := start + rep.FATStart + 2*rep.FATBytes - 1
				b := d.Peek(o, 1)
				d.Poke(o, []byte{b[0] ^ 0x01})
				res.Probe("foreign-fat-copies-differ")
			}
		case strings.HasPrefix(kind, "fat"):
			if c11ClusterlessEmpty(d, start, bi.Size, map[string]int{"fat12": 12, "fat16": 16, "fat32": 32}[kind]) {
				res.Probe("foreign-clusterless-empty-file")
			}
		case kind == "ext4-mke2fs":
			if c11StaleSummary(d, start, bi.Size) {
				res.Probe("foreign-stale-free-count")
			}
		}
	}
	devSize := d.Size()
	// partition table around the filesystem
	if layout != 0 {
		dk := &disk.Disk{Backend: d, Size: devSize, LogicalBlocksize: 512, PhysicalBlocksize: 512}
		first := uint64(start / 512)
		last := uint64((start+bi.Size)/512) - 1
		if layout == 1 {
			sp := gptSpec{GUID: "AAAAAAAA-BBBB-CCCC-DDDD-EEEEEEEEEEEE", Parts: []gptPart{{Index: 1, Start: first, End: last, Type: knownTypes[1], GUID: "AAAAAAAA-BBBB-CCCC-DDDD-000000000001", Name: "fs"}}}
			// room for the backup GPT
			d.SetSize(devSize + 64*512)
			devSize = d.Size()
			dk.Size = devSize
			if err := dk.Partition(sp.table(512, 512)); err != nil {
				res.Evals = 1
				res.Probe("build-failed")
				return res
			}
			if t.I("gptbad") == 1 {
				// a damaged primary header: readers fall back to the backup GPT - and must still only read
				b := d.Peek(512+56, 1)
				d.Poke(512+56, []byte{b[0] ^ 0xff})
				res.Probe("gpt-from-backup")
			}
		} else {
			sp := mbrSpec{Parts: []mbrPart{{Type: 0x83, Start: uint32(first), Size: uint32(last - first + 1)}}}
			if err := dk.Partition(sp.table(512, 512)); err != nil {
				res.Evals = 1
				res.Probe("build-failed")
				return res
			}
		}
	}
	// attach
	var be backend.Storage
	var imgPath string
	var hashBefore string
	d.St = simdisk.Stats{}
	d.LogEvents = false
	switch attach {
	case 0:
		d.ReadOnly = true
		be = d
		res.Probe("attach-writable-fails")
	case 1:
		be = file.New(d, true)
		res.Probe("attach-file.New-ro")
	case 2, 3:
		imgPath = filepath.Join(scratch(), fmt.Sprintf("c11-%d.img", os.Getpid()))
		defer os.Remove(imgPath)
		if err := d.DumpTo(imgPath, 0, devSize); err != nil {
			panic(err)
		}
		hashBefore = hashFile(imgPath)
		if attach == 2 {
			// (every other run through the variant that takes the exclusive flag, which a read-only open ignores)
			var b backend.Storage
			var err error
			if t.Seed&1 == 1 {
				b, err = file.OpenFromPathWithExclusive(imgPath, true, false)
			} else {
				b, err = file.OpenFromPath(imgPath, true)
			}
			if err != nil {
				panic(err)
			}
			be = b
			defer b.Close()
			res.Probe("attach-OpenFromPath-ro")
		} else {
			res.Probe("attach-diskfs.Open-ro")
		}
	default:
		be = d
		res.Probe("attach-rw-reads-only")
	}
	res.Fault("ro")
	h0 := d.Hash()
	var dk *disk.Disk
	var err error
	if attach == 3 {
		if pk, pv, loc, _ := core.Guard(func() { dk, err = diskfs.Open(imgPath, diskfs.WithOpenMode(diskfs.ReadOnly)) }); pk {
			res.V = &core.Violation{Clause: "C11.panic", Trigger: "diskfs.Open", Locus: loc, Detail: fmt.Sprint(pv), OpIndex: -1}
			return res
		}
		if err != nil {
			res.Evals = 1
			res.Sample = "diskfs.Open failed: " + err.Error()
			return res
		}
		defer dk.Close()
		be = dk.Backend
	} else {
		dk = &disk.Disk{Backend: be, Size: devSize, LogicalBlocksize: 512, PhysicalBlocksize: 512, DefaultBlocks: true}
		core.Guard(func() { dk.GetPartitionTable() })
	}
	var fs filesystem.FileSystem
	if pk, pv, loc, _ := core.Guard(func() { fs, err = bi.Open(be) }); pk {
		res.V = &core.Violation{Clause: "C11.panic", Trigger: "open-fs", Locus: loc, Detail: fmt.Sprint(pv), OpIndex: -1}
		return res
	}
	if err != nil {
		res.Evals = 1
		res.Sample = "filesystem could not be opened on the read-only attachment: " + err.Error()
		res.Probe("build-failed")
		return res
	}
	fam := kindFamily(kind)
	target := bi.PathOf("DIR/TARGET.DAT")
	ro := attach != 4
	attachName := [...]string{"writable-fails", "file.New-ro", "OpenFromPath-ro", "diskfs.Open-ro", "rw"}[attach]
	unchanged := func() (bool, string) {
		if attach == 2 || attach == 3 {
			if h := hashFile(imgPath); h != hashBefore {
				return false, "image file hash changed"
			}
			return true, ""
		}
		if d.St.Writes != 0 {
			return false, fmt.Sprintf("%d WriteAt calls reached the device", d.St.Writes)
		}
		if d.Hash() != h0 {
			return false, "image hash changed"
		}
		return true, ""
	}
	hist := core.Mix(core.HashStr(kind), uint64(attach), uint64(layout))
	attempted := false
	for i, o := range t.Ops {
		isMut := false
		for _, m := range c11Mutators {
			if m == o.K {
				isMut = true
			}
		}
		if isMut && !ro {
			continue // on the read-write attachment only the reading calls are issued
		}
		newName := bi.PathOf(fmt.Sprintf("NEW%d", o.A))
		var cerr error
		called := true
		locus := "filesystem/" + kindPkg(kind)
		pk, pv, loc, _ := core.Guard(func() {
			switch o.K {
			case "mkdir":
				cerr = fs.Mkdir(newName)
			case "create":
				var f filesystem.File
				f, cerr = fs.OpenFile(newName, os.O_CREATE|os.O_RDWR)
				if cerr == nil {
					f.Close()
				}
			case "openw", "opena", "opent", "openwo", "openwoc":
				flag := map[string]int{"openw": os.O_RDWR, "opena": os.O_RDWR | os.O_APPEND, "opent": os.O_RDWR | os.O_TRUNC, "openwo": os.O_WRONLY, "openwoc": os.O_WRONLY | os.O_CREATE}[o.K]
				var f filesystem.File
				f, cerr = fs.OpenFile(target, flag)
				if cerr == nil {
					f.Close()
				}
			case "write":
				var f filesystem.File
				f, cerr = fs.OpenFile(target, os.O_RDWR)
				if cerr == nil {
					_, cerr = f.Write([]byte("overwrite!"))
					f.Close()
				}
			case "rename":
				cerr = fs.Rename(target, bi.PathOf("DIR/RENAMED.DAT"))
			case "remove":
				cerr = fs.Remove(target)
			case "setlabel":
				cerr = fs.SetLabel("NEWLABEL")
			case "chmod":
				cerr = fs.Chmod(target, 0o600)
			case "chown":
				cerr = fs.Chown(target, 1000, 1000)
			case "chtimes":
				ts := time.Unix(1600000000, 0)
				cerr = fs.Chtimes(target, ts, ts, ts)
			case "symlink":
				cerr = fs.Symlink("TARGET.DAT", bi.PathOf("DIR/LINK"))
			case "partition":
				locus = "disk"
				res.Probe("disk-level")
				sp := mbrSpec{Parts: []mbrPart{{Type: 0x0c, Start: 2048, Size: 100}}}
				cerr = dk.Partition(sp.table(512, 512))
			case "writepart":
				locus = "disk"
				if dk.Table == nil {
					called = false
					return
				}
				res.Probe("disk-level")
				_, cerr = dk.WritePartitionContents(1, &simReader{total: bi.Size, zeros: true, res: res})
			case "createfs":
				locus = "disk"
				res.Probe("disk-level")
				part := 0
				if dk.Table != nil {
					part = 1
				}
				_, cerr = dk.CreateFilesystem(disk.FilesystemSpec{Partition: part, FSType: filesystem.TypeFat32, VolumeLabel: "X"})
			case "readdir":
				_, cerr = fs.ReadDir(vpath("DIR"))
			case "readfile":
				_, cerr = fs.ReadFile(target)
			case "stat":
				_, cerr = fs.Stat(vpath("DIR/TARGET.DAT"))
			case "openread":
				var f filesystem.File
				f, cerr = fs.OpenFile(target, os.O_RDONLY)
				if cerr == nil {
					io.ReadAll(f)
					f.Close()
				}
			case "readfrag":
				_, cerr = fs.ReadFile(bi.PathOf("FRAG1.BIN"))
			case "readempty":
				_, cerr = fs.ReadFile(bi.PathOf("EMPTY.DAT"))
			case "readmissing":
				// reading calls that name a path whose parent directories do not exist: an error, and nothing created on the way
				_, cerr = fs.ReadFile(bi.PathOf("NOPE/SUB/X.TXT"))
			case "openmissing":
				var f filesystem.File
				f, cerr = fs.OpenFile(bi.PathOf("NOPE/SUB/X.TXT"), os.O_RDONLY)
				if cerr == nil {
					f.Close()
				}
			case "statmissing":
				_, cerr = fs.Stat(vpath("NOPE/SUB/X.TXT"))
			case "readdirmissing":
				_, cerr = fs.ReadDir(vpath("NOPE/SUB"))
			case "label":
				_ = fs.Label()
				_ = fs.Type()
			case "gettable":
				_, cerr = dk.GetPartitionTable()
			case "getfs":
				part := 0
				if layout != 0 {
					part = 1
				}
				_, cerr = dk.GetFilesystem(part)
			case "readpart":
				if dk.Table == nil {
					called = false
					return
				}
				_, cerr = dk.ReadPartitionContents(1, io.Discard)
			default:
				called = false
			}
		})
		if !called {
			continue
		}
		res.Steps++
		res.Evals++
		hist = core.Mix(hist, core.HashStr(o.K))
		trig := fmt.Sprintf("%s:%s(%s)", fam, o.K, attachName)
		if pk {
			res.V = &core.Violation{Clause: "C11.panic", Trigger: trig + ":" + core.PanicClass(pv), Locus: loc, Detail: fmt.Sprintf("%s on a read-only attachment panicked: %v", o.K, pv), OpIndex: i}
			return res
		}
		if okc, why := unchanged(); !okc {
			cl := "C11.image-modified"
			if !isMut {
				cl = "C11.reading-call-wrote"
			}
			res.V = &core.Violation{Clause: cl, Trigger: trig, Locus: locus, Detail: fmt.Sprintf("%s (err=%v): %s", o.K, cerr, why), OpIndex: i}
			return res
		}
		if isMut {
			attempted = true
			if cerr == nil {
				cl := "C11.mutator-accepted"
				if o.K == "openw" || o.K == "opena" || o.K == "openwo" {
					cl = "C11.open-for-write-accepted"
				}
				res.V = &core.Violation{Clause: cl, Trigger: trig, Locus: locus, Detail: fmt.Sprintf("mutating call %s returned nil on a read-only attachment (%s); the image is unchanged", o.K, attachName), OpIndex: i}
				return res
			}
			res.Probe("mutator-refused")
		}
	}
	res.DevOps = d.St.Reads
	if attempted || !ro {
		res.Hashes = append(res.Hashes, hist)
	}
	if res.Evals == 0 {
		res.Evals = 1
	}
	res.Sample = fmt.Sprintf("%s layout=%d attach=%s | %s", kind, layout, attachName, t.Summary())
	return res
}

// c11ClusterlessEmpty turns EMPTY.DAT into an empty file without a cluster (first cluster 0, its former cluster
// free in both FAT copies), which is how every FAT writer but this library stores an empty file.
func c11ClusterlessEmpty(d *simdisk.Disk, start, size int64, ft int) bool {
	rep := indep.CheckFAT(d, start, size, ft)
	if len(rep.Problems) > 0 || rep.FATBytes <= 0 {
		return false
	}
	lim := size
	if lim > 8<<20 {
		lim = 8 << 20
	}
	buf := d.Peek(start, lim)
	idx := int64(-1)
	for off := int64(0); off+32 <= int64(len(buf)); off += 32 {
		if string(buf[off:off+11]) == "EMPTY   DAT" && buf[off+11]&0x18 == 0 {
			idx = off
			break
		}
	}
	if idx < 0 {
		return false
	}
	cl := int64(binary.LittleEndian.Uint16(buf[idx+26:])) | int64(binary.LittleEndian.Uint16(buf[idx+20:]))<<16
	if binary.LittleEndian.Uint32(buf[idx+28:]) != 0 || cl < 2 || cl > rep.Clusters+1 {
		return false
	}
	d.Poke(start+idx+26, []byte{0, 0})
	d.Poke(start+idx+20, []byte{0, 0})
	for c := int64(0); c < 2; c++ {
		base := start + rep.FATStart + c*rep.FATBytes
		switch ft {
		case 12:
			o := base + cl*3/2
			b := d.Peek(o, 2)
			if cl&1 == 0 {
				b[0], b[1] = 0, b[1]&0xf0
			} else {
				b[0], b[1] = b[0]&0x0f, 0
			}
			d.Poke(o, b)
		case 16:
			d.Poke(base+cl*2, []byte{0, 0})
		default:
			b := d.Peek(base+cl*4, 4)
			d.Poke(base+cl*4, []byte{0, 0, 0, b[3] & 0xf0})
		}
	}
	return true
}

// c11StaleSummary lowers the free-block count in the superblock with the reference tool (which keeps the
// superblock checksum right): the group descriptors then say something else, as after an unclean shutdown.
func c11StaleSummary(d *simdisk.Disk, start, size int64) bool {
	img := filepath.Join(scratch(), fmt.Sprintf("c11-%d.img", os.Getpid()))
	defer os.Remove(img)
	if err := d.DumpTo(img, start, size); err != nil {
		return false
	}
	cmd := exec.Command("/usr/sbin/debugfs", "-w", "-R", "ssv free_blocks_count 7", img)
	cmd.Env = append(os.Environ(), "E2FSPROGS_FAKE_TIME=1700000000")
	if out, err := cmd.CombinedOutput(); err != nil || strings.Contains(string(out), "rror") {
		return false
	}
	return d.LoadFrom(img, start) == nil
}
