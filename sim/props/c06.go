package props

import (
	"bytes"
	"fmt"
	"os"
	"regexp"
	"sort"
	"strings"

	"dsim/core"
	"dsim/indep"
	"dsim/simdisk"

	"github.com/diskfs/go-diskfs/filesystem/iso9660"
)

// C06 — An ISO9660 image contains exactly the tree it was built from.
//
// There is no schedule, clock or fault dimension in this property. The simulator contributes the
// device seam: the image is finalized at a non-zero start offset inside a larger noise-filled
// device with the write guard armed (shared with C03), and the independent reader works on the
// device bytes. Everything else is seeded generation against a reference tree.
type c06 struct{}

func init() { core.Register(c06{}) }

func (c06) ID() string    { return "C06" }
func (c06) Level() string { return "exploration" }
func (c06) Rule() string {
	return "one evaluation = one seeded workspace tree (depth 0..8, up to 300 entries per directory, file sizes 0 / <1 block / exact multiples / hundreds of KiB, names colliding after 8.3 truncation, mixed case, long names, symlinks under Rock Ridge) finalized with one of {plain, Rock Ridge, Joliet, both} x block size 2048/4096/8192 x start 0 or 1 MiB x volume identifier, then read back with iso9660.Read and with an independent primary-volume-descriptor walker on the device bytes; distinct = distinct (option set, geometry, tree hash); non-trivial = tree with at least one non-empty file"
}
func (c06) Assumptions() []string {
	return []string{
		"this property has no schedule/clock/fault dimension; the simulator contributes placement at start != 0, the write-range guard and the raw device bytes for the independent reader",
		"plain mode: files are matched by content (each file carries its original path); a name that does not collide in its directory must follow the documented mapping (upper case, [^A-Z0-9_] -> _, split at the first dot, 8.3 truncation, optional ;1); the numbering inside a collision group is implementation-defined and only required to be distinct",
		"Rock Ridge / Joliet: names exact (Joliet: up to 64 UCS-2 units)",
	}
}
func (c06) Components() map[string][]string {
	return map[string][]string{
		"real": {"filesystem/iso9660 Create, Finalize, Read, ReadDir, ReadFile"},
		"stub": {"block device with start offset, noise and write guard (SimDisk)", "host scratch directory as workspace (timestamps pinned)", "independent ISO9660 PVD walker"},
	}
}
func (c06) ProbeNames() []string {
	return []string{"plain", "rockridge", "joliet", "rr+joliet", "start-nonzero", "bs-4096", "bs-8192", "multi-sector-dir", "collision-group", "deep", "symlink"}
}
func (c06) Budget(tier string) (int, int, int) {
	if tier == "thorough" {
		return 900, 1 << 30, 600
	}
	return 50, 1 << 30, 180
}

func (c06) Gen(r *core.Rng, tier string, idx int) *core.Trace {
	t := &core.Trace{Cfg: map[string]int64{}, CfgS: map[string]string{}}
	t.Cfg["mode"] = int64(idx % 4) // 0 plain 1 rr 2 joliet 3 both
	t.Cfg["bs"] = core.PickOf[int64](r, 2048, 2048, 2048, 4096, 8192)
	t.Cfg["start"] = core.PickOf[int64](r, 0, 0, 1<<20)
	t.Cfg["tag"] = int64(r.U64() >> 2)
	t.Cfg["depth"] = int64(r.PickW(30, 28, 18, 9, 5, 4, 4, 2)) // 0,1,2,3, 6, 8 (deep override), 8 and 10 without the override: relocation under Rock Ridge, refusal otherwise
	t.Cfg["nfiles"] = r.Range(0, 12)
	t.Cfg["bigdir"] = 0
	if r.Chance(15) {
		t.Cfg["bigdir"] = r.Range(40, 300)
	}
	t.Cfg["collide"] = int64(r.Intn(2))
	t.Cfg["twins"] = int64(r.PickW(55, 45))
	t.Cfg["longnames"] = int64(r.PickW(60, 40))
	t.Cfg["manydirs"] = 0
	if r.Chance(20) {
		t.Cfg["manydirs"] = r.Range(40, 120) // path tables of more than one block, and longer in Joliet than in the primary tree
	}
	t.Cfg["symlinks"] = int64(r.Intn(2))
	t.CfgS["volid"] = core.PickOf(r, "", "MYVOL", "A_LONGER_VOLUME_ID_0123456789", "X")
	return t
}

var isoNames = []string{"README.TXT", "data.bin", "Makefile", "long-file-name-with-many-chars.extension", "UPPER", "a.b", "index.html", "x", "notes.md", "mixed.Case.Name", "_under", "file with space.txt"}

// names that collide after the 8.3 mapping, and siblings whose own name equals a name the collision resolution generates
var isoCollide = []string{"collision-name-aaaa.txt", "collision-name-bbbb.txt", "collision-name-cccc.txt", "COLLISIO.TXT", "collision.text", "collision.texu", "collisi1.txt", "collisi2.txt", "collis10.txt", "COLLISI3.TXT"}

func c06Tree(t *core.Trace) []imgEntry {
	tag := uint64(t.I("tag"))
	r := core.NewRng(tag ^ 0xc06)
	var tree []imgEntry
	depthIdx := t.I("depth") % 8
	depth := []int{0, 1, 2, 3, 6, 8, 8, 10}[depthIdx]
	dirs := []string{""}
	cur := ""
	for d := 1; d <= depth; d++ {
		name := fmt.Sprintf("dir%d", d)
		if d%3 == 0 {
			name = fmt.Sprintf("Directory-Level-%d", d)
		}
		if cur == "" {
			cur = name
		} else {
			cur = cur + "/" + name
		}
		dirs = append(dirs, cur)
		tree = append(tree, imgEntry{Path: cur, Dir: true})
	}
	sizes := []int64{0, 1, 100, 2047, 2048, 2049, 4096, 8192, 10000, 65536, 300000}
	mk := func(p string, size int64) imgEntry {
		head := []byte("PATH:" + p + "\n")
		body := core.PatternBytes(core.HashStr(p)^tag, size)
		if int64(len(head)) < size {
			copy(body, head)
		} else if size > 0 {
			body = head[:size]
		}
		return imgEntry{Path: p, Data: body}
	}
	n := int(t.I("nfiles"))
	for i := 0; i < n; i++ {
		d := dirs[r.Intn(len(dirs))]
		name := isoNames[i%len(isoNames)]
		p := name
		if d != "" {
			p = d + "/" + name
		}
		dup := false
		for _, e := range tree {
			if e.Path == p {
				dup = true
			}
		}
		if dup {
			continue
		}
		sz := sizes[r.Intn(len(sizes))]
		if sz > 0 && sz < int64(len(p))+6 {
			sz = int64(len(p)) + 6 // room for the path header so that content identifies the file
		}
		tree = append(tree, mk(p, sz))
	}
	if tag%3 == 1 {
		// a name with characters outside ASCII and a base longer than eight: in the plain tree every such character
		// becomes one underscore before the name is cut to 8.3
		name := "r\u00e9sum\u00e9-2024.dat"
		tree = append(tree, mk(name, int64(len(name))+40))
	}
	if m := t.I("mode") % 4; m >= 2 && tag%3 == 0 {
		// names outside Latin-1 on images with a Joliet tree (UCS-2: both bytes of every unit matter)
		for i, name := range []string{"\u03a9\u03bc\u03ad\u03b3\u03b1.txt", "\u0444\u0430\u0439\u043b-\u0434\u0430\u043d\u043d\u044b\u0445.bin", "\u65e5\u672c\u8a9e\u30d5\u30a1\u30a4\u30eb.dat", "\u0101\u0201\u0301x.d"} {
			tree = append(tree, mk(name, int64(len(name))+6+int64(i)*300))
		}
		tree = append(tree, imgEntry{Path: "\u043a\u0430\u0442\u0430\u043b\u043e\u0433", Dir: true}, mk("\u043a\u0430\u0442\u0430\u043b\u043e\u0433/in.txt", 60))
	}
	if t.I("longnames") == 1 && t.I("mode")%4 == 1 {
		// every name length around the point where a Rock Ridge record reaches the 255 bytes a record can have
		tree = append(tree, imgEntry{Path: "sweep", Dir: true})
		for ln := 118; ln <= 146; ln++ {
			name := fmt.Sprintf("F%03d-", ln) + strings.Repeat("n", ln-5-4) + ".bin"
			tree = append(tree, mk("sweep/"+name, int64(ln)+20))
			if ln >= 128 && ln%2 == 0 {
				dn := fmt.Sprintf("sweep/D%03d-", ln) + strings.Repeat("d", ln-5)
				tree = append(tree, imgEntry{Path: dn, Dir: true}, mk(dn+"/x.txt", int64(ln)+30))
			}
		}
	}
	if t.I("collide") == 1 {
		// sibling directories that differ only behind a dot (a directory identifier has no extension)
		for _, dn := range []string{"data.v1", "data.v2", "lib.so.1", "lib.so.2"} {
			tree = append(tree, imgEntry{Path: dn, Dir: true}, mk(dn+"/inside.txt", int64(len(dn))+30))
		}
		d := dirs[r.Intn(len(dirs))]
		for _, name := range isoCollide {
			p := name
			if d != "" {
				p = d + "/" + name
			}
			tree = append(tree, mk(p, 200+int64(len(p))))
		}
	}
	if bd := t.I("bigdir"); bd > 0 {
		if bd > 400 {
			bd = 400
		}
		tree = append(tree, imgEntry{Path: "many", Dir: true})
		for i := int64(0); i < bd; i++ {
			p := fmt.Sprintf("many/entry-number-%04d.dat", i)
			tree = append(tree, mk(p, int64(len(p))+6+i%7))
		}
	}
	if t.I("longnames") == 1 {
		// names whose Rock Ridge NM entry does not fit in the directory record: several continuation areas per directory
		dirs2 := []string{"", "longdir"}
		tree = append(tree, imgEntry{Path: "longdir", Dir: true})
		for _, d := range dirs2 {
			lens := []int{132, 140, 200, 250}
			if m := t.I("mode") % 4; m == 2 || m == 3 {
				// a Joliet record holds at most 110 characters; beyond that Finalize refuses (every tenth run keeps the long ones to see the refusal)
				if tag%10 != 0 {
					lens = []int{65, 100, 109, 110}
				}
			}
			for i, ln := range lens {
				name := fmt.Sprintf("%c%d-", 'k'+i, ln) + strings.Repeat(string(rune('a'+i)), ln-8) + ".bin"
				p := name
				if d != "" {
					p = d + "/" + name
				}
				tree = append(tree, mk(p, int64(len(p))+6+int64(i)*1000))
			}
		}
	}
	if md := t.I("manydirs"); md > 0 {
		if md > 300 {
			md = 300
		}
		tree = append(tree, imgEntry{Path: "pt", Dir: true})
		for i := int64(0); i < md; i++ {
			dn := fmt.Sprintf("pt/directory-with-a-long-name-%03d", i)
			if i%3 == 1 {
				dn = fmt.Sprintf("pt/directory-with-a-long-name-%03d/nested-%03d", i-1, i)
			}
			tree = append(tree, imgEntry{Path: dn, Dir: true})
			if i%4 == 0 {
				tree = append(tree, mk(dn+"/in.txt", int64(len(dn))+40+i))
			}
		}
	}
	if t.I("twins") == 1 {
		// directories that share a name under different parents, and a directory named like a sibling of its
		// parent: a lookup that matches path components by name alone ends up in the wrong one
		for _, d := range []string{"twina", "twinb", "twina/common", "twinb/common", "twinb/twina", "twinb/twina/common"} {
			tree = append(tree, imgEntry{Path: d, Dir: true})
		}
		for _, f := range []string{"twina/common/inner.txt", "twinb/common/inner.txt", "twinb/twina/inner.txt", "twinb/twina/common/inner.txt", "twina/only_a.txt", "twinb/only_b.txt"} {
			tree = append(tree, mk(f, int64(len(f))+6+int64(r.Intn(3000))))
		}
	}
	if t.I("symlinks") == 1 && (t.I("mode")%4 == 1 || t.I("mode")%4 == 3) && len(tree) > 0 {
		tree = append(tree, imgEntry{Path: "link-to-readme", Link: "README.TXT"}, imgEntry{Path: "abs-link", Link: "/some/absolute/target"})
	}
	return tree
}

var isoBad = regexp.MustCompile("[^A-Z0-9_]")

// isoMapName is the documented plain-mode mapping of a single name.
func isoMapName(name string, dir bool) string {
	parts := strings.SplitN(name, ".", 2)
	short := isoBad.ReplaceAllString(strings.ToUpper(parts[0]), "_")
	ext := ""
	if len(parts) > 1 {
		ext = isoBad.ReplaceAllString(strings.ToUpper(parts[1]), "_")
	}
	if len(ext) > 3 {
		ext = ext[:3]
	}
	if len(short) > 8 {
		short = short[:8]
	}
	if ext != "" {
		return short + "." + ext
	}
	return short
}

func stripVersion(n string) string {
	if i := strings.LastIndex(n, ";"); i >= 0 {
		n = n[:i]
	}
	return strings.TrimSuffix(n, ".")
}

func execIsoBuild(t *core.Trace, prop string) *core.Result {
	res := core.NewResult()
	mode := t.I("mode") % 4
	bs := t.I("bs")
	if bs != 4096 && bs != 8192 {
		bs = 2048
	}
	start := t.I("start")
	if start < 0 || start > 8<<30 {
		start = 0
	}
	start = start / bs * bs
	tree := c06Tree(t)
	var payload int64
	for _, e := range tree {
		payload += int64(len(e.Data)) + bs
	}
	size := payload + int64(len(tree))*3*bs + 64*bs + 1<<20
	size = size / bs * bs
	tail := int64(1 << 20)
	d := simdisk.New(start + size + tail)
	if start > 0 {
		nb := start
		if nb > 1<<20 {
			nb = 1 << 20
		}
		d.FillNoise(start-nb, nb, t.Seed^0x11)
		d.FillNoise(0, 65536, t.Seed^0x33) // the place an image that ignores start would be written to
	}
	d.FillNoise(start+size, tail, t.Seed^0x22)
	d.SetGuard(simdisk.Extent{Off: start, Len: size})
	ws := newScratchSub("c06-ws")
	defer os.RemoveAll(ws)
	if err := writeHostTree(ws, tree); err != nil {
		panic(err)
	}
	modeName := [...]string{"plain", "rockridge", "joliet", "rr+joliet"}[mode]
	res.Probe(modeName)
	if start > 0 {
		res.Probe("start-nonzero")
	}
	if bs != 2048 {
		res.Probe(fmt.Sprintf("bs-%d", bs))
	}
	trig := fmt.Sprintf("finalize(%s,bs%d,start%s)", modeName, bs, map[bool]string{true: ">0", false: "=0"}[start > 0])
	want := func(c string) bool { return strings.HasPrefix(c, prop+".") }
	fail := func(clause, locus, detail string) *core.Result {
		if !want(clause) {
			return res
		}
		res.V = &core.Violation{Clause: clause, Trigger: trig, Locus: locus, Detail: detail, OpIndex: -1}
		return res
	}
	var ferr error
	if pk, pv, loc, _ := core.Guard(func() {
		var fs *iso9660.FileSystem
		fs, ferr = iso9660.Create(d, size, start, bs, ws)
		if ferr != nil {
			return
		}
		ferr = fs.Finalize(iso9660.FinalizeOptions{RockRidge: mode == 1 || mode == 3, Joliet: mode >= 2, DeepDirectories: t.I("depth")%8 == 5, VolumeIdentifier: t.Sg("volid")})
	}); pk {
		return fail(prop+".panic", loc, fmt.Sprintf("Finalize panicked: %v", pv))
	}
	res.Evals = 1
	res.Steps = int64(len(tree))
	res.DevOps = d.St.Writes
	if g := d.GuardHit; g != nil {
		return fail("C03.fs-write-outside-range", g.Locus, fmt.Sprintf("ISO9660 image was given [%d,+%d) but Finalize wrote [%d,+%d)", start, size, g.Off, g.Len))
	}
	if g := d.BeyondEnd; g != nil {
		return fail("C03.fs-write-outside-range", g.Locus, fmt.Sprintf("Finalize wrote [%d,+%d) beyond the device", g.Off, g.Len))
	}
	if ferr != nil {
		res.Sample = "Finalize refused: " + ferr.Error()
		res.Probe("finalize-refused")
		return res
	}
	if prop != "C06" {
		return res
	}
	// ---- model
	type mfile struct {
		data []byte
		link string
		dir  bool
	}
	model := map[string]mfile{}
	dirCount := map[string]int{".": 0}
	for _, e := range tree {
		model[e.Path] = mfile{e.Data, e.Link, e.Dir}
		if e.Dir {
			dirCount[e.Path] += 0
		}
		dirCount[parentOfValid(e.Path)]++
		if e.Link != "" {
			res.Probe("symlink")
		}
	}
	for _, n := range dirCount {
		if int64(n)*40 > bs {
			res.Probe("multi-sector-dir")
		}
	}
	if t.I("depth")%8 >= 4 {
		res.Probe("deep")
	}
	if t.I("depth")%8 >= 6 {
		res.Probe("deeper-than-8-accepted")
	}
	if t.I("collide") == 1 {
		res.Probe("collision-group")
	}
	// ---- library read-back
	img := d.Clone()
	var rfs *iso9660.FileSystem
	var err error
	if pk, pv, loc, _ := core.Guard(func() { rfs, err = iso9660.Read(img, size, start, bs) }); pk {
		return fail("C06.panic", loc, fmt.Sprintf("Read panicked: %v", pv))
	}
	if err != nil {
		return fail("C06.cannot-reopen", "filesystem/iso9660.Read", "the finalized image cannot be opened: "+err.Error())
	}
	exact := mode != 0
	seen := map[string]bool{}
	imgDirOf := map[string]string{} // image directory path -> original directory path (plain mode)
	var werr *core.Violation
	var walk func(imgDir, origDir string)
	walk = func(imgDir, origDir string) {
		ents, err := rfs.ReadDir(imgDir)
		if err != nil {
			werr = &core.Violation{Clause: "C06.listing", Detail: fmt.Sprintf("ReadDir(%q): %v", imgDir, err)}
			return
		}
		names := map[string]bool{}
		n := 0
		for _, e := range ents {
			if e.Name() == "." || e.Name() == ".." || e.Name() == "" {
				continue
			}
			n++
			if names[e.Name()] {
				werr = &core.Violation{Clause: "C06.duplicate-name", Detail: fmt.Sprintf("directory %q lists %q twice", imgDir, e.Name())}
				return
			}
			names[e.Name()] = true
			ip := e.Name()
			if imgDir != "." {
				ip = imgDir + "/" + e.Name()
			}
			if exact {
				op := ip
				m, ok := model[op]
				if !ok {
					werr = &core.Violation{Clause: "C06.listing", Detail: fmt.Sprintf("image lists %q which is not in the workspace (names must be exact under %s)", ip, modeName)}
					return
				}
				seen[op] = true
				if m.dir != e.IsDir() {
					werr = &core.Violation{Clause: "C06.kind", Detail: fmt.Sprintf("%q: directory=%v in the image, %v in the workspace", ip, e.IsDir(), m.dir)}
					return
				}
				if info, ierr := e.Info(); ierr == nil && info.Mode().IsDir() != e.IsDir() {
					werr = &core.Violation{Clause: "C06.kind", Detail: fmt.Sprintf("%q: the entry says directory=%v, the mode of its Info() says %v", ip, e.IsDir(), info.Mode().IsDir())}
					return
				}
				if e.IsDir() {
					walk(ip, op)
					if werr != nil {
						return
					}
					continue
				}
				if m.link != "" {
					continue // link targets are C19's business
				}
				data, err := rfs.ReadFile(ip)
				if err != nil || !bytes.Equal(data, m.data) {
					werr = &core.Violation{Clause: "C06.content", Detail: fmt.Sprintf("%q: err=%v %s", ip, err, diffDesc(data, m.data))}
					return
				}
				continue
			}
			// plain mode
			if e.IsDir() {
				// the original directory is identified by the files below; recurse with unknown origin
				walk(ip, "?")
				if werr != nil {
					return
				}
				continue
			}
			data, err := rfs.ReadFile(ip)
			if err != nil {
				werr = &core.Violation{Clause: "C06.content", Detail: fmt.Sprintf("ReadFile(%q): %v", ip, err)}
				return
			}
			op := ""
			if bytes.HasPrefix(data, []byte("PATH:")) {
				if i := bytes.IndexByte(data, '\n'); i > 0 {
					op = string(data[5:i])
				}
			}
			m, ok := model[op]
			if !ok {
				if len(data) == 0 {
					continue // empty files carry no path; counted below
				}
				werr = &core.Violation{Clause: "C06.content", Detail: fmt.Sprintf("image file %q has content that belongs to no workspace file", ip)}
				return
			}
			if !bytes.Equal(data, m.data) {
				werr = &core.Violation{Clause: "C06.content", Detail: fmt.Sprintf("image file %q (workspace %q): %s", ip, op, diffDesc(data, m.data))}
				return
			}
			if seen[op] {
				werr = &core.Violation{Clause: "C06.listing", Detail: fmt.Sprintf("workspace file %q appears twice in the image", op)}
				return
			}
			seen[op] = true
			od := parentOfValid(op)
			if prev, ok := imgDirOf[imgDir]; ok && prev != od {
				werr = &core.Violation{Clause: "C06.structure", Detail: fmt.Sprintf("image directory %q holds files of workspace directories %q and %q", imgDir, prev, od)}
				return
			}
			imgDirOf[imgDir] = od
			if strings.Count(vpath(imgDir), "/")+map[bool]int{true: 0, false: 1}[imgDir == "."] != strings.Count(od, "/")+map[bool]int{true: 0, false: 1}[od == "."] {
				werr = &core.Violation{Clause: "C06.structure", Detail: fmt.Sprintf("workspace file %q found at depth of %q", op, ip)}
				return
			}
			// documented mapping for names that do not collide inside their directory
			base := baseOf(op)
			mapped := isoMapName(base, false)
			collides := false
			for q := range model {
				if q != op && parentOfValid(q) == od && isoMapName(baseOf(q), model[q].dir) == mapped {
					collides = true
				}
			}
			got := stripVersion(e.Name())
			if !collides && got != strings.TrimSuffix(mapped, ".") {
				werr = &core.Violation{Clause: "C06.name-mapping", Detail: fmt.Sprintf("workspace name %q is listed as %q, the documented 8.3 mapping gives %q", base, e.Name(), mapped)}
				return
			}
		}
		if exact {
			if wantN := dirCount[origDir]; n != wantN {
				werr = &core.Violation{Clause: "C06.listing", Detail: fmt.Sprintf("directory %q lists %d entries, the workspace has %d", imgDir, n, wantN)}
			}
		} else if od, ok := imgDirOf[imgDir]; ok {
			if wantN := dirCount[od]; n != wantN {
				werr = &core.Violation{Clause: "C06.listing", Detail: fmt.Sprintf("image directory %q (workspace %q) lists %d entries, the workspace has %d", imgDir, od, n, wantN)}
			}
		}
	}
	if pk, pv, loc, _ := core.Guard(func() { walk(".", ".") }); pk {
		return fail("C06.panic", loc, fmt.Sprintf("walking the image panicked: %v", pv))
	}
	if werr != nil {
		return fail(werr.Clause, "filesystem/iso9660.(*FileSystem).Finalize", werr.Detail)
	}
	for p, m := range model {
		if m.dir || m.link != "" {
			if exact && !seen[p] {
				return fail("C06.listing", "filesystem/iso9660.(*FileSystem).Finalize", fmt.Sprintf("workspace entry %q is missing in the image", p))
			}
			continue
		}
		if !seen[p] && (exact || len(m.data) > 0) {
			return fail("C06.listing", "filesystem/iso9660.(*FileSystem).Finalize", fmt.Sprintf("workspace file %q is missing in the image", p))
		}
	}
	// ---- independent reader on the device bytes
	view := indep.ReadISO(d, start)
	if len(view.Problems) > 0 {
		return fail("C06.independent-reader", "filesystem/iso9660.(*FileSystem).Finalize", "independent PVD walker: "+strings.Join(view.Problems, "; "))
	}
	if view.BlockSize != bs {
		return fail("C06.independent-reader", "filesystem/iso9660.(*FileSystem).Finalize", fmt.Sprintf("PVD block size %d, image built with %d", view.BlockSize, bs))
	}
	written := d.MaxWrittenEndIn(start, size) - start
	type ext struct {
		lo, hi int64
		name   string
	}
	var exts []ext
	contents := map[string]bool{}
	nfilesIndep := 0
	for _, f := range view.Files {
		lo := f.LBA * bs
		if f.Size > 0 {
			if lo < 0 || lo+f.Size > size || lo+f.Size > written+bs {
				return fail("C06.extent-outside-image", "filesystem/iso9660.(*FileSystem).Finalize", fmt.Sprintf("%v: extent [%d,+%d) lies outside the image (%d bytes written, range %d)", f.Idents, lo, f.Size, written, size))
			}
			exts = append(exts, ext{lo, lo + f.Size, strings.Join(f.Idents, "/")})
		}
		if !f.Dir {
			nfilesIndep++
			data := d.Peek(start+lo, f.Size)
			if bytes.HasPrefix(data, []byte("PATH:")) {
				if i := bytes.IndexByte(data, '\n'); i > 0 {
					op := string(data[5:i])
					if m, ok := model[op]; ok && bytes.Equal(m.data, data) {
						contents[op] = true
					}
				}
			}
		}
	}
	sort.Slice(exts, func(i, j int) bool { return exts[i].lo < exts[j].lo })
	for i := 1; i < len(exts); i++ {
		if exts[i].lo < exts[i-1].hi {
			return fail("C06.extents-overlap", "filesystem/iso9660.(*FileSystem).Finalize", fmt.Sprintf("extents of %q [%d,%d) and %q [%d,%d) overlap", exts[i-1].name, exts[i-1].lo, exts[i-1].hi, exts[i].name, exts[i].lo, exts[i].hi))
		}
	}
	nonEmpty := 0
	for p, m := range model {
		if !m.dir && m.link == "" && len(m.data) > 0 {
			nonEmpty++
			if !contents[p] {
				return fail("C06.independent-reader", "filesystem/iso9660.(*FileSystem).Finalize", fmt.Sprintf("independent PVD walker does not find the bytes of workspace file %q", p))
			}
		}
	}
	if nonEmpty > 0 {
		res.Hashes = append(res.Hashes, core.Mix(uint64(mode), uint64(bs), uint64(start), uint64(t.I("tag"))))
	}
	res.Sample = fmt.Sprintf("%s bs=%d start=%d entries=%d written=%d indep-files=%d", modeName, bs, start, len(tree), written, nfilesIndep)
	return res
}

func (c06) Exec(t *core.Trace) *core.Result { return execIsoBuild(t, "C06") }
