package props

import (
	"bytes"
	"encoding/binary"
	"fmt"
	"os"
	"strings"

	"dsim/core"
	"dsim/simdisk"

	"github.com/diskfs/go-diskfs/filesystem/squashfs"
)

// C07 — A squashfs image contains exactly the tree it was built from.
//
// No schedule, clock or fault dimension exists for this property. The simulator contributes the
// device seam (placement at a non-zero start, write-range guard shared with C03, the write log
// against which the superblock's size fields are checked) and per-run randomisation of the knobs
// the statement lists: compressor, fragments, NoCompress* flags, block size and - the classic
// blind spot - the read cache size, including 0 and one block, so that the miss path runs.
type c07 struct{}

func init() { core.Register(c07{}) }

func (c07) ID() string    { return "C07" }
func (c07) Level() string { return "exploration" }
func (c07) Rule() string {
	return "one evaluation = one seeded workspace tree (empty dirs, a directory with hundreds of entries, files of size 0 / <block / k*block / k*block+tail, zero runs, compressible and incompressible data, symlinks) finalized with a seeded option set (none/gzip/xz/lz4/zstd, fragments on/off, NoCompressData/Fragments/Inodes, block size 4 KiB..1 MiB, start 0 or non-zero) and read back twice with different cache sizes (0, one block, default); listings, contents and link targets equal the workspace for every option set, the superblock's bytes-used equals the end of what the device saw written, table pointers are ordered inside it; distinct = distinct (option set, geometry, tree hash); non-trivial = tree with at least one non-empty file"
}
func (c07) Assumptions() []string {
	return []string{
		"this property has no schedule/clock/fault dimension; the simulator contributes placement, the write-range guard, the device write log (size oracle) and knob randomisation incl. the read cache size",
		"the image may be padded to a multiple of 4 KiB: bytes-used <= end of writes <= bytes-used rounded up to 4 KiB",
	}
}
func (c07) Components() map[string][]string {
	return map[string][]string{
		"real": {"filesystem/squashfs Create, Finalize, Read, ReadDir, ReadFile, Stat/Readlink, SetCacheSize", "gzip/xz/lz4/zstd codecs"},
		"stub": {"block device with start offset, noise, write guard and write log (SimDisk)", "host scratch directory as workspace (timestamps pinned)"},
	}
}
func (c07) ProbeNames() []string {
	return []string{"comp-none", "comp-gzip", "comp-xz", "comp-lz4", "comp-zstd", "no-fragments", "no-compress-flags", "cache-0", "cache-1", "cache-default", "start-nonzero", "big-dir", "sparse-run", "symlink", "bs-large", "block-list-over-2-metadata-blocks", "over-512-fragment-blocks"}
}
func (c07) Budget(tier string) (int, int, int) {
	if tier == "thorough" {
		return 900, 1 << 30, 600
	}
	return 50, 1 << 30, 180
}

func (c07) Gen(r *core.Rng, tier string, idx int) *core.Trace {
	t := &core.Trace{Cfg: map[string]int64{}, CfgS: map[string]string{}}
	t.Cfg["comp"] = int64(idx % 5) // 0 none 1 gzip 2 xz 3 lz4 4 zstd
	t.Cfg["bs"] = core.PickOf[int64](r, 4096, 4096, 8192, 65536, 131072, 1048576)
	t.Cfg["start"] = core.PickOf[int64](r, 0, 0, 4096, 1<<20)
	t.Cfg["nofrag"] = int64(r.Intn(2))
	t.Cfg["nocomp"] = int64(r.Intn(8)) // bits: data, fragments, inodes
	t.Cfg["cacheA"] = core.PickOf[int64](r, 0, 1, -1)
	t.Cfg["cacheB"] = core.PickOf[int64](r, 0, 1, 3, -1)
	t.Cfg["tag"] = int64(r.U64() >> 2)
	t.Cfg["nfiles"] = r.Range(0, 12)
	t.Cfg["bigdir"] = 0
	if r.Chance(20) {
		t.Cfg["bigdir"] = r.Range(50, 400)
	}
	t.Cfg["symlinks"] = int64(r.Intn(2))
	// more than 512 fragment blocks: the fragment table needs a second metadata block and a second index entry
	t.Cfg["manyfrags"] = 0
	if t.Cfg["bs"] == 4096 && r.Chance(12) {
		t.Cfg["manyfrags"] = r.Range(2150, 2600)
	}
	// many variable-length inodes (symlinks with targets of all lengths): inodes that straddle the 8 KiB
	// metadata blocks of the inode table at every possible split point
	t.Cfg["manylinks"] = 0
	if r.Chance(15) {
		t.Cfg["manylinks"] = r.Range(500, 900)
	}
	// one file of more than 4096 blocks: its block list alone spans three 8 KiB metadata blocks
	t.Cfg["manyblocks"] = 0
	if t.Cfg["bs"] == 4096 && r.Chance(25) {
		t.Cfg["manyblocks"] = r.Range(4100, 4500)
	}
	if t.Cfg["comp"] == 2 {
		// xz is two orders of magnitude slower: it keeps the small trees
		t.Cfg["manyblocks"], t.Cfg["manyfrags"] = 0, 0
	}
	return t
}

func c07Tree(t *core.Trace, bs int64) []imgEntry {
	tag := uint64(t.I("tag"))
	r := core.NewRng(tag ^ 0xc07)
	tree := []imgEntry{{Path: "emptydir", Dir: true}, {Path: "d", Dir: true}, {Path: "d/sub", Dir: true}}
	dirs := []string{"", "d", "d/sub"}
	n := int(t.I("nfiles"))
	if n > 16 {
		n = 16
	}
	for i := 0; i < n; i++ {
		var size int64
		switch r.PickW(10, 25, 15, 25, 15, 10) {
		case 0:
			size = 0
		case 1:
			size = r.Range(1, bs-1)
		case 2:
			size = bs * r.Range(1, 3)
		case 3:
			size = bs*r.Range(1, 3) + r.Range(1, bs-1)
		case 4:
			size = r.Range(1, 2000)
		case 5:
			size = bs*r.Range(4, 9) + 17
		}
		if size > 3<<20 {
			size = 3<<20 + 17
		}
		data := core.PatternBytes(tag+uint64(i)*101, size)
		switch r.Intn(4) {
		case 0: // compressible
			for k := range data {
				data[k] = byte('a' + k%7)
			}
		case 1: // zero run in the middle (sparse block)
			if size > 2*bs {
				clear(data[bs : 2*bs])
			}
		case 2: // all zeros
			if r.Chance(30) {
				clear(data)
			}
		}
		d := dirs[r.Intn(len(dirs))]
		p := fmt.Sprintf("file%02d.bin", i)
		if d != "" {
			p = d + "/" + p
		}
		tree = append(tree, imgEntry{Path: p, Data: data})
	}
	if mb := t.I("manyblocks"); mb > 0 && bs <= 8192 {
		if mb > 6000 {
			mb = 6000
		}
		data := make([]byte, bs*mb+17)
		for k := range data {
			data[k] = byte('a' + (k/97+k)%23) // compressible, position dependent
		}
		tree = append(tree, imgEntry{Path: "d/many-blocks.bin", Data: data})
	}
	if ml := t.I("manylinks"); ml > 0 {
		if ml > 2000 {
			ml = 2000
		}
		tree = append(tree, imgEntry{Path: "links", Dir: true})
		for i := int64(0); i < ml; i++ {
			tree = append(tree, imgEntry{Path: fmt.Sprintf("links/l%04d", i), Link: strings.Repeat("t", int((i*7+int64(tag%13))%61)+1)})
		}
	}
	if mf := t.I("manyfrags"); mf > 0 && bs == 4096 {
		if mf > 4000 {
			mf = 4000
		}
		tree = append(tree, imgEntry{Path: "tails", Dir: true})
		for i := int64(0); i < mf; i++ {
			// about 1000 incompressible bytes each: four tails per 4 KiB fragment block
			tree = append(tree, imgEntry{Path: fmt.Sprintf("tails/t%04d.bin", i), Data: core.PatternBytes(tag^uint64(i)*2654435761, 990+i%21)})
		}
	}
	if bd := t.I("bigdir"); bd > 0 {
		if bd > 600 {
			bd = 600
		}
		tree = append(tree, imgEntry{Path: "many", Dir: true})
		for i := int64(0); i < bd; i++ {
			tree = append(tree, imgEntry{Path: fmt.Sprintf("many/a-rather-long-entry-name-to-fill-metadata-%04d.txt", i), Data: []byte(fmt.Sprintf("entry %d", i))})
		}
	}
	if t.I("symlinks") == 1 {
		tree = append(tree, imgEntry{Path: "rel-link", Link: "d/sub"}, imgEntry{Path: "d/abs-link", Link: "/absolute/target/path"}, imgEntry{Path: "long-link", Link: strings.Repeat("x/", 100) + "end"})
	}
	return tree
}

func execSquashBuild(t *core.Trace, prop string) *core.Result {
	res := core.NewResult()
	bs := t.I("bs")
	okbs := false
	for _, v := range []int64{4096, 8192, 16384, 32768, 65536, 131072, 262144, 524288, 1048576} {
		if v == bs {
			okbs = true
		}
	}
	if !okbs {
		bs = 4096
	}
	start := t.I("start")
	if start < 0 || start > 8<<30 {
		start = 0
	}
	tree := c07Tree(t, bs)
	var payload int64
	for _, e := range tree {
		payload += int64(len(e.Data)) + 512
	}
	size := payload*2 + 4<<20
	tail := int64(1 << 20)
	d := simdisk.New(start + size + tail)
	if start > 0 {
		nb := start
		if nb > 1<<20 {
			nb = 1 << 20
		}
		d.FillNoise(start-nb, nb, t.Seed^0x11)
		d.FillNoise(0, 4096, t.Seed^0x33)
		res.Probe("start-nonzero")
	}
	d.FillNoise(start+size, tail, t.Seed^0x22)
	d.SetGuard(simdisk.Extent{Off: start, Len: size})
	d.LogEvents = true
	comp := t.I("comp") % 5
	compName := [...]string{"none", "gzip", "xz", "lz4", "zstd"}[comp]
	res.Probe("comp-" + compName)
	if bs >= 65536 {
		res.Probe("bs-large")
	}
	fo := squashfs.FinalizeOptions{}
	switch comp {
	case 1:
		fo.Compression = &squashfs.CompressorGzip{CompressionLevel: []uint32{1, 6, 9}[uint64(t.I("tag"))%3]} // (level 0, the zero value, would store everything uncompressed)
	case 2:
		fo.Compression = &squashfs.CompressorXz{}
	case 3:
		fo.Compression = &squashfs.CompressorLz4{}
	case 4:
		fo.Compression = &squashfs.CompressorZstd{}
	}
	if t.I("nofrag") == 1 {
		fo.NoFragments = true
		res.Probe("no-fragments")
	}
	nc := t.I("nocomp") % 8
	fo.NoCompressData, fo.NoCompressFragments, fo.NoCompressInodes = nc&1 != 0, nc&2 != 0, nc&4 != 0
	if nc != 0 {
		res.Probe("no-compress-flags")
	}
	trig := fmt.Sprintf("finalize(%s,nofrag=%d,nocomp=%d,start%s)", compName, t.I("nofrag"), nc, map[bool]string{true: ">0", false: "=0"}[start > 0])
	want := func(c string) bool { return strings.HasPrefix(c, prop+".") }
	fail := func(clause, locus, detail string) *core.Result {
		if !want(clause) {
			return res
		}
		res.V = &core.Violation{Clause: clause, Trigger: trig, Locus: locus, Detail: detail, OpIndex: -1}
		return res
	}
	scratch()
	var ferr error
	if pk, pv, loc, _ := core.Guard(func() {
		var fs *squashfs.FileSystem
		fs, ferr = squashfs.Create(d, size, start, bs)
		if ferr != nil {
			return
		}
		ws := fs.Workspace()
		defer os.RemoveAll(ws)
		if ferr = writeHostTree(ws, tree); ferr != nil {
			return
		}
		ferr = fs.Finalize(fo)
	}); pk {
		return fail(prop+".panic", loc, fmt.Sprintf("Finalize panicked: %v", pv))
	}
	res.Evals = 1
	res.Steps = int64(len(tree))
	res.DevOps = d.St.Writes
	if g := d.GuardHit; g != nil {
		return fail("C03.fs-write-outside-range", g.Locus, fmt.Sprintf("squashfs image was given [%d,+%d) but Finalize wrote [%d,+%d)", start, size, g.Off, g.Len))
	}
	if g := d.BeyondEnd; g != nil {
		return fail("C03.fs-write-outside-range", g.Locus, fmt.Sprintf("Finalize wrote [%d,+%d) beyond the device", g.Off, g.Len))
	}
	if ferr != nil {
		res.Sample = "Finalize refused: " + ferr.Error()
		res.Probe("finalize-refused")
		return res
	}
	if prop != "C07" {
		return res
	}
	var writeEnd int64
	for _, e := range d.Events {
		if e.Kind == simdisk.EvWrite && e.Len > 0 && e.Off+e.Len > writeEnd {
			writeEnd = e.Off + e.Len
		}
	}
	writeEnd -= start
	// ---- superblock size fields vs the write log
	sb := d.Peek(start, 96)
	bytesUsed := int64(binary.LittleEndian.Uint64(sb[40:48]))
	if bytesUsed > writeEnd || writeEnd > (bytesUsed+4095)/4096*4096 {
		return fail("C07.superblock-size", "filesystem/squashfs.(*FileSystem).Finalize", fmt.Sprintf("superblock bytes-used is %d but the device saw writes up to byte %d of the image", bytesUsed, writeEnd))
	}
	ptr := func(off int) int64 { return int64(binary.LittleEndian.Uint64(sb[off : off+8])) }
	inodeT, dirT, fragT, idT := ptr(64), ptr(72), ptr(80), ptr(48)
	if !(96 <= inodeT && inodeT < dirT && dirT <= fragT && fragT <= idT && idT < bytesUsed) {
		return fail("C07.superblock-tables", "filesystem/squashfs.(*FileSystem).Finalize", fmt.Sprintf("table pointers not ordered inside the image: inode %d, directory %d, fragment %d, id %d, bytes-used %d", inodeT, dirT, fragT, idT, bytesUsed))
	}
	// ---- model
	model := map[string]imgEntry{}
	children := map[string]int{".": 0}
	nonEmpty := 0
	for _, e := range tree {
		model[e.Path] = e
		children[parentOfValid(e.Path)]++
		if e.Dir {
			children[e.Path] += 0
		}
		if len(e.Data) > 0 {
			nonEmpty++
		}
		if e.Link != "" {
			res.Probe("symlink")
		}
		if len(e.Data) > int(2*bs) && bytes.Equal(e.Data[bs:2*bs], make([]byte, bs)) {
			res.Probe("sparse-run")
		}
	}
	if t.I("bigdir") > 0 {
		res.Probe("big-dir")
	}
	if t.I("manyfrags") > 0 && t.I("bs") == 4096 && t.I("nofrag") == 0 {
		res.Probe("over-512-fragment-blocks")
	}
	if t.I("manyblocks") > 0 && t.I("bs") <= 8192 {
		res.Probe("block-list-over-2-metadata-blocks")
	}
	// ---- read back twice with different cache sizes
	for pass, cache := range []int64{t.I("cacheA"), t.I("cacheB")} {
		img := d.Clone()
		var rfs *squashfs.FileSystem
		var err error
		if pk, pv, loc, _ := core.Guard(func() { rfs, err = squashfs.Read(img, size, start, bs) }); pk {
			return fail("C07.panic", loc, fmt.Sprintf("Read panicked: %v", pv))
		}
		if err != nil {
			return fail("C07.cannot-reopen", "filesystem/squashfs.Read", "the finalized image cannot be opened: "+err.Error())
		}
		switch {
		case cache == 0:
			rfs.SetCacheSize(0)
			res.Probe("cache-0")
		case cache > 0:
			rfs.SetCacheSize(int(cache * bs))
			res.Probe("cache-1")
		default:
			res.Probe("cache-default")
		}
		res.Fault("knob")
		cacheName := fmt.Sprintf("cache=%d", cache)
		seen := map[string]bool{}
		var werr *core.Violation
		var walk func(dir string)
		walk = func(dir string) {
			ents, err := rfs.ReadDir(dir)
			if err != nil {
				werr = &core.Violation{Clause: "C07.listing", Detail: fmt.Sprintf("ReadDir(%q) [%s]: %v", dir, cacheName, err)}
				return
			}
			n := 0
			for _, e := range ents {
				n++
				p := e.Name()
				if dir != "." {
					p = dir + "/" + e.Name()
				}
				m, ok := model[p]
				if !ok {
					werr = &core.Violation{Clause: "C07.listing", Detail: fmt.Sprintf("image lists %q which is not in the workspace [%s]", p, cacheName)}
					return
				}
				if seen[p] {
					werr = &core.Violation{Clause: "C07.listing", Detail: fmt.Sprintf("%q listed twice [%s]", p, cacheName)}
					return
				}
				seen[p] = true
				if m.Dir != e.IsDir() {
					werr = &core.Violation{Clause: "C07.kind", Detail: fmt.Sprintf("%q: directory=%v in the image, %v in the workspace", p, e.IsDir(), m.Dir)}
					return
				}
				if e.IsDir() {
					walk(p)
					if werr != nil {
						return
					}
					continue
				}
				if m.Link != "" {
					if e.Type()&os.ModeSymlink == 0 {
						werr = &core.Violation{Clause: "C07.kind", Detail: fmt.Sprintf("%q is a symlink in the workspace but not in the image", p)}
						return
					}
					type readlinker interface{ Readlink() (string, error) }
					if rl, ok := e.(readlinker); ok {
						tgt, err := rl.Readlink()
						if err != nil || tgt != m.Link {
							werr = &core.Violation{Clause: "C07.link-target", Detail: fmt.Sprintf("%q: link target %q (%v), workspace %q", p, clip(tgt, 60), err, clip(m.Link, 60))}
							return
						}
					}
					continue
				}
				// the many small files that exist to fill the fragment table are all listed, and a sample of them
				// (every 19th, and the last sixty, whose fragment numbers are the highest) is read
				if strings.HasPrefix(p, "tails/t") && len(p) == len("tails/t0000.bin") {
					var k int64
					fmt.Sscanf(p[len("tails/t"):], "%d", &k)
					if k%19 != 0 && k < t.I("manyfrags")-60 {
						continue
					}
				}
				data, err := rfs.ReadFile(p)
				if err != nil || !bytes.Equal(data, m.Data) {
					werr = &core.Violation{Clause: "C07.content", Detail: fmt.Sprintf("%q (size %d, block %d) [%s, pass %d]: err=%v %s", p, len(m.Data), bs, cacheName, pass, err, diffDesc(data, m.Data))}
					return
				}
			}
			if n != children[dir] {
				werr = &core.Violation{Clause: "C07.listing", Detail: fmt.Sprintf("directory %q lists %d entries, the workspace has %d [%s]", dir, n, children[dir], cacheName)}
			}
		}
		if pk, pv, loc, _ := core.Guard(func() { walk(".") }); pk {
			return fail("C07.panic", loc, fmt.Sprintf("walking the image panicked [%s]: %v", cacheName, pv))
		}
		if werr != nil {
			return fail(werr.Clause, "filesystem/squashfs", werr.Detail)
		}
		for p := range model {
			if !seen[p] {
				return fail("C07.listing", "filesystem/squashfs", fmt.Sprintf("workspace entry %q is missing in the image", p))
			}
		}
	}
	if nonEmpty > 0 {
		res.Hashes = append(res.Hashes, core.Mix(uint64(comp), uint64(bs), uint64(start), uint64(t.I("nofrag")), uint64(nc), uint64(t.I("tag"))))
	}
	res.Sample = fmt.Sprintf("%s bs=%d start=%d entries=%d bytesUsed=%d writeEnd=%d caches=%d/%d", trig, bs, start, len(tree), bytesUsed, writeEnd, t.I("cacheA"), t.I("cacheB"))
	return res
}

func (c07) Exec(t *core.Trace) *core.Result { return execSquashBuild(t, "C07") }
