package props

import (
	"fmt"
	"os"
	"os/exec"
	"path/filepath"
	"strings"
	"sync"
	"time"

	"github.com/google/uuid"
	"golang.org/x/sys/unix"

	"dsim/core"
	"dsim/simdisk"

	"github.com/diskfs/go-diskfs/backend"
	"github.com/diskfs/go-diskfs/filesystem"
	"github.com/diskfs/go-diskfs/filesystem/ext4"
	"github.com/diskfs/go-diskfs/filesystem/iso9660"
	"github.com/diskfs/go-diskfs/filesystem/squashfs"
)

// ---------------------------------------------------------------- scratch

var (
	scratchOnce sync.Once
	scratchDir  string
	scratchSeq  int
)

// scratch returns this process's scratch directory (outside /repo and /verif, removed by the
// runner when the worker exits; tmpfs when available).
func scratch() string {
	scratchOnce.Do(func() {
		base := os.Getenv("VERIF_SCRATCH")
		if base == "" {
			if st, err := os.Stat("/dev/shm"); err == nil && st.IsDir() {
				base = "/dev/shm"
			} else {
				base = "/var/tmp"
			}
		}
		scratchDir = filepath.Join(base, fmt.Sprintf("dsim.%d", os.Getpid()))
		_ = os.RemoveAll(scratchDir)
		_ = os.MkdirAll(scratchDir, 0o755)
		// library code that calls os.MkdirTemp("") (squashfs.Create, iso9660.Create) lands here too
		os.Setenv("TMPDIR", scratchDir)
	})
	return scratchDir
}

// CleanupScratch removes the scratch directory (called by the worker at exit).
func CleanupScratch() {
	if scratchDir != "" {
		_ = os.RemoveAll(scratchDir)
	}
}

func init() { core.AtExit(CleanupScratch) }

func newScratchSub(prefix string) string {
	scratchSeq++
	p := filepath.Join(scratch(), fmt.Sprintf("%s%d", prefix, scratchSeq))
	_ = os.RemoveAll(p)
	_ = os.MkdirAll(p, 0o755)
	return p
}

// ---------------------------------------------------------------- image building

// imgEntry is one node of a tree to be put into an image.
type imgEntry struct {
	Path string // slash separated, no leading slash
	Dir  bool
	Data []byte
	Link string // symlink target (ext4, squashfs, iso+RR)
	// Sparse: on a host tree, all-zero 4 KiB pages of Data are left as holes (mke2fs -d then stores holes too)
	Sparse bool
	// FarOff: on a host tree, the second half of Data is placed at this byte offset behind a hole (a file larger
	// than 4 GiB that costs four pages); builders that do not go through a host tree store Data as it is
	FarOff int64
}

// fsKinds are the image kinds the shared builder knows.
var fsKinds = []string{"fat12", "fat16", "fat32", "ext4", "ext4-mke2fs", "iso", "iso-rr", "iso-joliet", "squashfs", "squashfs-nocomp", "squashfs-nofrag"}

type builtImage struct {
	Kind        string
	D           *simdisk.Disk
	Start, Size int64
	Open        func(b backend.Storage) (filesystem.FileSystem, error)
	// OpenUnsized, where the format's Read accepts it, opens without telling the size of the image (size 0)
	OpenUnsized func(b backend.Storage) (filesystem.FileSystem, error)
	// PathOf maps a tree path to the form the filesystem's calls expect
	PathOf func(p string) string
	// NameOf maps a tree path to the name under which the image stores it (ISO plain mode mangles names)
	Unit int64 // natural block/cluster size
}

// hostTreeTime is the fixed timestamp given to every workspace entry so that images built from
// the same tree are byte-identical from run to run (replays depend on it).
var hostTreeTime = time.Unix(1700000000, 0)

func fixHostTimes(dir string) {
	_ = filepath.Walk(dir, func(p string, info os.FileInfo, err error) error {
		if err != nil {
			return nil
		}
		tv := []unix.Timeval{{Sec: hostTreeTime.Unix()}, {Sec: hostTreeTime.Unix()}}
		_ = unix.Lutimes(p, tv)
		return nil
	})
}

func writeHostTree(dir string, tree []imgEntry) error {
	defer fixHostTimes(dir)
	for _, e := range tree {
		hp := filepath.Join(dir, filepath.FromSlash(e.Path))
		switch {
		case e.Dir:
			if err := os.MkdirAll(hp, 0o755); err != nil {
				return err
			}
		case e.Link != "":
			_ = os.MkdirAll(filepath.Dir(hp), 0o755)
			if err := os.Symlink(e.Link, hp); err != nil {
				return err
			}
		default:
			_ = os.MkdirAll(filepath.Dir(hp), 0o755)
			if e.FarOff > 0 {
				f, err := os.Create(hp)
				if err != nil {
					return err
				}
				half := len(e.Data) / 2
				if _, err := f.WriteAt(e.Data[:half], 0); err == nil {
					_, err = f.WriteAt(e.Data[half:], e.FarOff)
				}
				f.Close()
				if err != nil {
					return err
				}
				continue
			}
			if e.Sparse {
				f, err := os.Create(hp)
				if err != nil {
					return err
				}
				for off := 0; off < len(e.Data); off += 4096 {
					end := off + 4096
					if end > len(e.Data) {
						end = len(e.Data)
					}
					zero := true
					for _, b := range e.Data[off:end] {
						if b != 0 {
							zero = false
							break
						}
					}
					if !zero {
						if _, err := f.WriteAt(e.Data[off:end], int64(off)); err != nil {
							f.Close()
							return err
						}
					}
				}
				if err := f.Truncate(int64(len(e.Data))); err != nil {
					f.Close()
					return err
				}
				f.Close()
				continue
			}
			if err := os.WriteFile(hp, e.Data, 0o644); err != nil {
				return err
			}
		}
	}
	return nil
}

// c10Cut is the end of the k-th of n pieces a file of the given length is written in (uneven on purpose)
func c10Cut(length, k, n int) int {
	if k >= n {
		return length
	}
	return length*k/n + 13
}

// buildImage creates an image of the given kind holding tree, at byte offset start of a fresh SimDisk.
// opt: "size" (bytes, 0 = default per kind), "bs" (block size knob), "sqcomp" (squashfs compressor index).
func buildImage(kind string, tree []imgEntry, start int64, opt map[string]int64) (*builtImage, error) {
	// entropy used by the writers (ext4 UUID and hash seed) is pinned so that the same inputs give the same image
	uuid.SetRand(seededReader{core.NewRng(core.HashStr(kind) ^ 0x1d)})
	defer uuid.SetRand(nil)
	size := opt["size"]
	bi := &builtImage{Kind: kind, Start: start}
	switch {
	case strings.HasPrefix(kind, "fat"):
		ft := 12
		if kind == "fat16" {
			ft = 16
		} else if kind == "fat32" {
			ft = 32
		}
		if size == 0 {
			size = map[int]int64{12: 4 << 20, 16: 6 << 20, 32: 4 << 20}[ft]
		}
		d := simdisk.New(start + size + 4096)
		fs, err := fatCreate(d, ft, size, start, 512, "IMG", false)
		if err != nil {
			return nil, err
		}
		for _, e := range tree {
			if e.Link != "" {
				continue
			}
			if e.Dir {
				if err := fs.Mkdir("/" + e.Path); err != nil {
					return nil, err
				}
				continue
			}
			if dir := parentOf(e.Path); dir != "" {
				if err := fs.Mkdir("/" + dir); err != nil {
					return nil, err
				}
			}
			f, err := fs.OpenFile("/"+e.Path, os.O_CREATE|os.O_RDWR)
			if err != nil {
				return nil, err
			}
			if len(e.Data) > 0 {
				if _, err := f.Write(e.Data); err != nil {
					return nil, err
				}
			}
			f.Close()
		}
		bi.D, bi.Size = d, size
		bi.Open = func(b backend.Storage) (filesystem.FileSystem, error) { return fatReadB(b, ft, size, start, 512) }
		bi.PathOf = func(p string) string { return "/" + p }
		bi.Unit = 512
		if cl := fatClusterBytes(d, start, size, ft); cl > 0 {
			bi.Unit = cl
		}
		return bi, nil
	case kind == "ext4":
		if size == 0 {
			size = 16 << 20
		}
		d := simdisk.New(start + size + 4096)
		p := &ext4.Params{}
		if opt["bs"] == 4096 {
			p.SectorsPerBlock = 8
		}
		// metadata checksums on every other volume (opt "csum": 1 on, 2 off; otherwise decided by the content, which
		// callers derive from the run's PRNG value): the library then also maintains the checksum tails of extent
		// tree blocks and directory blocks, and readers walk past them
		csum := opt["csum"] == 1
		if opt["csum"] == 0 {
			x := uint32(0)
			for _, e := range tree {
				if len(e.Data) > 1 {
					x = x*31 + uint32(e.Data[0]) + uint32(e.Data[len(e.Data)/2])<<3
				}
			}
			csum = (x^x>>7)&1 == 1
		}
		if csum {
			p.Features = append(p.Features, ext4.WithFeatureMetadataChecksums(true))
		}
		fs, err := ext4.Create(d, size, start, 512, p)
		if err != nil {
			return nil, err
		}
		var later []imgEntry
		parts := 2 // opt "frag": in how many rounds the larger files are written (more rounds, more extents)
		if opt["frag"] > 2 && opt["frag"] <= 16 {
			parts = int(opt["frag"])
		}
		for _, e := range tree {
			switch {
			case e.Dir:
				if err := fs.Mkdir(e.Path); err != nil {
					return nil, err
				}
			case e.Link != "":
				if err := fs.Symlink(e.Link, e.Path); err != nil {
					return nil, err
				}
			default:
				if dir := parentOf(e.Path); dir != "" {
					if err := fs.Mkdir(dir); err != nil {
						return nil, err
					}
				}
				f, err := fs.OpenFile(e.Path, os.O_CREATE|os.O_RDWR)
				if err != nil {
					return nil, err
				}
				// larger files are written in two parts, the second after all other files: their extents are
				// then not adjacent on the device, as in any volume that has been in use for a while
				first := e.Data
				if len(e.Data) > 6000 {
					first = e.Data[:c10Cut(len(e.Data), 1, parts)]
					later = append(later, e)
				}
				if len(first) > 0 {
					if _, err := f.Write(first); err != nil {
						return nil, err
					}
				}
				f.Close()
			}
		}
		for round := 1; round < parts; round++ {
			for _, e := range later {
				f, err := fs.OpenFile(e.Path, os.O_RDWR|os.O_APPEND)
				if err != nil {
					return nil, err
				}
				if _, err := f.Write(e.Data[c10Cut(len(e.Data), round, parts):c10Cut(len(e.Data), round+1, parts)]); err != nil {
					return nil, err
				}
				f.Close()
			}
		}
		bi.D, bi.Size = d, size
		bi.Open = func(b backend.Storage) (filesystem.FileSystem, error) { return ext4.Read(b, size, start, 512) }
		bi.PathOf = func(p string) string { return p }
		bi.Unit = 1024
		if opt["bs"] == 4096 {
			bi.Unit = 4096
		}
		return bi, nil
	case kind == "ext4-mke2fs":
		if size == 0 {
			size = 16 << 20
		}
		dir := newScratchSub("mke2fs-tree")
		defer os.RemoveAll(dir)
		if err := writeHostTree(dir, tree); err != nil {
			return nil, err
		}
		if opt["rich"] == 1 {
			// structures the library never writes itself: a file whose extents need a leaf block (one extent per
			// data page of a sparse file) and a directory that e2fsck -D turns into a hash-indexed one
			f, err := os.Create(filepath.Join(dir, "SPARSE6.BIN"))
			if err != nil {
				return nil, err
			}
			for i := int64(0); i < 7; i++ {
				if _, err := f.WriteAt(core.PatternBytes(uint64(i)+77, 4096), i*12288); err != nil {
					return nil, err
				}
			}
			f.Close()
			if err := os.Mkdir(filepath.Join(dir, "IDX"), 0o755); err != nil {
				return nil, err
			}
			nidx := 60 // three 1 KiB blocks of entries: enough for an index, cheap to walk
			if opt["bs"] == 4096 {
				nidx = 100
			}
			for i := 0; i < nidx; i++ {
				if err := os.WriteFile(filepath.Join(dir, "IDX", fmt.Sprintf("entry-with-a-long-name-%04d.dat", i)), []byte{byte(i)}, 0o644); err != nil {
					return nil, err
				}
			}
			fixHostTimes(dir)
		}
		img := filepath.Join(scratch(), fmt.Sprintf("mke2fs-%d.img", scratchSeq))
		defer os.Remove(img)
		bs := opt["bs"]
		if bs == 0 {
			bs = 1024
		}
		args := []string{"-q", "-F", "-t", "ext4", "-b", fmt.Sprint(bs), "-d", dir, "-E", "root_owner=0:0,lazy_itable_init=0,lazy_journal_init=0"}
		if x := opt["mke2fs_O"]; x != 0 {
			// reserved for feature toggles (C20)
		}
		args = append(args, img, fmt.Sprintf("%dk", size/1024))
		cmd := exec.Command("/usr/sbin/mke2fs", args...)
		cmd.Env = append(os.Environ(), "E2FSPROGS_FAKE_TIME=1700000000")
		if out, err := cmd.CombinedOutput(); err != nil {
			return nil, fmt.Errorf("mke2fs: %v: %s", err, out)
		}
		if opt["rich"] == 1 {
			c2 := exec.Command("/usr/sbin/e2fsck", "-f", "-y", "-D", img)
			c2.Env = append(os.Environ(), "E2FSPROGS_FAKE_TIME=1700000000")
			if out, err := c2.CombinedOutput(); err != nil {
				if ee, ok := err.(*exec.ExitError); !ok || ee.ExitCode() > 1 {
					return nil, fmt.Errorf("e2fsck -D: %v: %s", err, out)
				}
			}
		}
		d := simdisk.New(start + size + 4096)
		if err := d.LoadFrom(img, start); err != nil {
			return nil, err
		}
		bi.D, bi.Size = d, size
		bi.Open = func(b backend.Storage) (filesystem.FileSystem, error) { return ext4.Read(b, size, start, 512) }
		bi.PathOf = func(p string) string { return p }
		bi.Unit = bs
		return bi, nil
	case strings.HasPrefix(kind, "iso"):
		if size == 0 {
			size = 32 << 20
		}
		bs := opt["bs"]
		if bs == 0 {
			bs = 2048
		}
		dir := newScratchSub("iso-ws")
		defer os.RemoveAll(dir)
		if err := writeHostTree(dir, tree); err != nil {
			return nil, err
		}
		d := simdisk.New(start + size + 4096)
		fs, err := iso9660.Create(d, size, start, bs, dir)
		if err != nil {
			return nil, err
		}
		fo := iso9660.FinalizeOptions{VolumeIdentifier: "IMG"}
		switch kind {
		case "iso-rr":
			fo.RockRidge = true
		case "iso-joliet":
			fo.Joliet = true
		}
		if err := fs.Finalize(fo); err != nil {
			return nil, err
		}
		bi.D, bi.Size = d, size
		bi.Open = func(b backend.Storage) (filesystem.FileSystem, error) { return iso9660.Read(b, size, start, bs) }
		bi.OpenUnsized = func(b backend.Storage) (filesystem.FileSystem, error) { return iso9660.Read(b, 0, start, bs) }
		bi.PathOf = func(p string) string { return p }
		bi.Unit = bs
		return bi, nil
	case strings.HasPrefix(kind, "squashfs"):
		if size == 0 {
			size = 32 << 20
		}
		bs := opt["bs"]
		if bs == 0 {
			bs = 4096
		}
		scratch()
		d := simdisk.New(start + size + 4096)
		fs, err := squashfs.Create(d, size, start, bs)
		if err != nil {
			return nil, err
		}
		ws := fs.Workspace()
		defer os.RemoveAll(ws)
		if err := writeHostTree(ws, tree); err != nil {
			return nil, err
		}
		fo := squashfs.FinalizeOptions{}
		switch opt["sqcomp"] {
		case 1:
			fo.Compression = &squashfs.CompressorXz{}
		case 2:
			fo.Compression = &squashfs.CompressorLz4{}
		case 3:
			fo.Compression = &squashfs.CompressorZstd{}
		default:
			fo.Compression = &squashfs.CompressorGzip{CompressionLevel: 6}
		}
		switch kind {
		case "squashfs-nocomp":
			fo.NoCompressData, fo.NoCompressFragments, fo.NoCompressInodes = true, true, true
		case "squashfs-nofrag":
			fo.NoFragments = true
		}
		if err := fs.Finalize(fo); err != nil {
			return nil, err
		}
		bi.D, bi.Size = d, size
		bi.Open = func(b backend.Storage) (filesystem.FileSystem, error) { return squashfs.Read(b, size, start, bs) }
		bi.PathOf = func(p string) string { return p }
		bi.Unit = bs
		return bi, nil
	}
	return nil, fmt.Errorf("unknown image kind %q", kind)
}

func fatClusterBytes(d *simdisk.Disk, start, size int64, ft int) int64 {
	b := d.Peek(start, 512)
	bps := int64(b[11]) | int64(b[12])<<8
	return bps * int64(b[13])
}

// setHostMtime sets access and modification time of a workspace entry without following links.
func setHostMtime(p string, t time.Time) {
	ts := []unix.Timespec{{Sec: t.Unix()}, {Sec: t.Unix()}}
	_ = unix.UtimesNanoAt(unix.AT_FDCWD, p, ts, unix.AT_SYMLINK_NOFOLLOW)
}
