package props

import (
	"fmt"
	"strings"

	"dsim/core"
	"dsim/indep"
	"dsim/simdisk"

	"github.com/diskfs/go-diskfs/disk"
	"github.com/diskfs/go-diskfs/partition"
	"github.com/diskfs/go-diskfs/partition/gpt"
)

// C09 — Repartitioning a GPT disk is atomic across power loss.
//
// One run = one (old table, new table, disk geometry). new.Write is executed once on a SimDisk
// that records every WriteAt (with payload) and Sync. Crash states are then built from the
// record: durable image (everything up to the last Sync) plus any subset of the logical
// sectors of the writes still in flight. Every crash image is read back with gpt.Read and
// partition.Read and must be exactly old or exactly new.
type c09 struct{}

func init() { core.Register(c09{}) }

func (c09) ID() string    { return "C09" }
func (c09) Level() string { return "fault_enumeration" }
func (c09) Rule() string {
	return "one evaluation = one crash image (old GPT synced; new GPT Write recorded; crash after a prefix of device events with a subset of the in-flight sectors persisted: none, all, each single sector, all-but-one, first-k, last-k, alternating, all 2^n subsets when n<=12, plus seeded random subsets) read back through gpt.Read and partition.Read; distinct = distinct (table pair, prefix, subset); non-trivial = at least one write in flight or a partially applied update"
}
func (c09) Assumptions() []string {
	return []string{
		"a logical sector is written atomically; un-synced writes may persist in any order and any subset (volatile write-back cache)",
		"Sync() makes all earlier writes durable",
		"old table was completely written and synced before the rewrite starts",
		"with old = no table, only gpt.Read is judged (allowed: the pre-write error class or exactly new)",
	}
}
func (c09) Components() map[string][]string {
	return map[string][]string{
		"real": {"partition/gpt Table.Write, Read (go-diskfs working tree)", "partition.Read", "disk.Disk.Partition", "google/uuid"},
		"stub": {"block device + write-back cache + power (SimDisk)", "independent GPT parser as cross-check"},
	}
}
func (c09) ProbeNames() []string {
	return []string{"torn-array-write", "backup-used", "old-survived", "new-visible", "auto-disk-guid", "exhaustive-window", "blank-old", "via-disk-partition", "repair-after-recovery", "ragged-device-size"}
}
func (c09) Budget(tier string) (int, int, int) {
	if tier == "thorough" {
		return 900, 1 << 30, 300
	}
	return 40, 1 << 30, 60
}

func (c09) Gen(r *core.Rng, tier string, idx int) *core.Trace {
	t := &core.Trace{Cfg: map[string]int64{}, CfgS: map[string]string{}}
	lss := int64(512)
	if r.Chance(35) {
		lss = 4096
	}
	var size int64
	switch r.PickW(50, 30, 15, 5) {
	case 0:
		size = r.Range(1, 8) << 20
	case 1:
		size = r.Range(8, 64) << 20
	case 2: // odd sizes, not a multiple of 1 MiB
		size = (r.Range(1, 32) << 20) + lss*r.Range(1, 2000)
	case 3:
		size = 3 << 40
	}
	if idx%97 == 5 {
		size = 3 << 40
	}
	if r.Chance(10) {
		// a device that is not a whole number of sectors long (image files are): the last sector is the last whole one
		size += r.Range(1, lss-1)
		t.Cfg["ragged"] = 1
	}
	t.Cfg["size"] = size
	t.Cfg["lss"] = lss
	t.Cfg["pss"] = core.PickOf[int64](r, 512, 4096)
	sectors := uint64(size / lss)
	oldKind := int64(r.PickW(8, 7, 85)) // 0 blank, 1 noise, 2 gpt
	t.Cfg["old"] = oldKind
	t.Cfg["viaDisk"] = int64(r.Intn(2))
	maxParts := 128
	if tier == "quick" {
		maxParts = 40
	}
	if oldKind == 2 {
		old := genGPT(r, sectors, int(lss), maxParts, false)
		t.CfgS["oldguid"] = old.GUID
		t.Ops = append(t.Ops, old.ops("old")...)
		// new: variations
		var nw gptSpec
		switch r.PickW(40, 15, 15, 15, 15) {
		case 0:
			nw = genGPT(r, sectors, int(lss), maxParts, false)
		case 1: // only the disk GUID differs
			nw = old
			nw.GUID = genGUID(r)
		case 2: // one more partition / one fewer
			nw = gptSpec{GUID: old.GUID, Parts: append([]gptPart(nil), old.Parts...)}
			if len(nw.Parts) > 0 && r.Bool() {
				nw.Parts = nw.Parts[:len(nw.Parts)-1]
			} else {
				extra := genGPT(r, sectors, int(lss), 1, false)
				for _, p := range extra.Parts {
					dup := false
					for _, q := range nw.Parts {
						if q.Index == p.Index {
							dup = true
						}
					}
					if !dup {
						nw.Parts = append(nw.Parts, p)
					}
				}
			}
		case 3: // one bit of one field
			nw = gptSpec{GUID: old.GUID, Parts: append([]gptPart(nil), old.Parts...)}
			if len(nw.Parts) > 0 {
				i := r.Intn(len(nw.Parts))
				nw.Parts[i].Attr ^= 1 << uint(r.Intn(64))
			} else {
				nw.GUID = genGUID(r)
			}
		case 4: // rename only
			nw = gptSpec{GUID: old.GUID, Parts: append([]gptPart(nil), old.Parts...)}
			for i := range nw.Parts {
				nw.Parts[i].Name = genName(r)
			}
			if len(nw.Parts) == 0 {
				nw.GUID = genGUID(r)
			}
		}
		if r.Chance(20) {
			nw.GUID = "" // left to the library
		}
		t.CfgS["newguid"] = nw.GUID
		t.Ops = append(t.Ops, nw.ops("new")...)
	} else {
		nw := genGPT(r, sectors, int(lss), maxParts, false)
		if r.Chance(20) {
			nw.GUID = "" // left to the library
		}
		t.CfgS["newguid"] = nw.GUID
		t.Ops = append(t.Ops, nw.ops("new")...)
	}
	return t
}

type crashEv struct {
	write bool
	off   int64
	data  []byte
}

func (p c09) Exec(t *core.Trace) *core.Result {
	res := core.NewResult()
	size, lss, pss := t.I("size"), t.I("lss"), t.I("pss")
	if lss != 512 && lss != 4096 {
		lss = 512
	}
	if pss == 0 {
		pss = 512
	}
	if size < 64*lss {
		size = 64 * lss
	}
	if size%lss != 0 {
		res.Probe("ragged-device-size")
	}
	oldKind := t.I("old")
	old := gptFromOps(t.Ops, "old", t.Sg("oldguid"))
	nw := gptFromOps(t.Ops, "new", t.Sg("newguid"))
	d := newNoisyDisk(size, oldKind == 1, t.Seed)
	fail := func(clause, trig, locus, detail string) *core.Result {
		res.V = &core.Violation{Clause: "C09." + clause, Trigger: trig, Locus: locus, Detail: detail, OpIndex: -1}
		return res
	}
	if oldKind == 2 {
		var err error
		if pk, pv, loc, _ := core.Guard(func() { err = old.table(int(lss), int(pss)).Write(d, size) }); pk {
			return fail("panic", "old.Write:"+core.PanicClass(pv), loc, fmt.Sprint(pv))
		}
		if err != nil { // old table not accepted: nothing to test
			res.Evals = 1
			res.Sample = "old table refused: " + err.Error()
			return res
		}
	} else {
		res.Probe("blank-old")
	}
	base := d.Clone()
	d.LogEvents, d.RecordData = true, true
	var werr error
	newTable := nw.table(int(lss), int(pss))
	via := t.I("viaDisk") == 1
	if pk, pv, loc, _ := core.Guard(func() {
		if via {
			dk := &disk.Disk{Backend: d, Size: size, LogicalBlocksize: lss, PhysicalBlocksize: pss}
			werr = dk.Partition(newTable)
		} else {
			werr = newTable.Write(d, size)
		}
	}); pk {
		return fail("panic", "new.Write:"+core.PanicClass(pv), loc, fmt.Sprint(pv))
	}
	if via {
		res.Probe("via-disk-partition")
	}
	if werr != nil {
		res.Evals = 1
		res.Sample = "new table refused: " + werr.Error()
		return res
	}
	var evs []crashEv
	for _, e := range d.Events {
		switch e.Kind {
		case simdisk.EvWrite:
			evs = append(evs, crashEv{write: true, off: e.Off, data: e.Data})
		case simdisk.EvSync:
			evs = append(evs, crashEv{})
		}
	}
	res.DevOps = int64(len(d.Events))
	if nw.GUID == "" {
		// the new table left the disk GUID to the library: "the new table" then carries the GUID that the
		// completed Write reads back with (primary copy, independent parser) - every crash state must show the old
		// table or exactly that one
		if v := indep.ReadGPT(d, lss); v.Primary != nil {
			nw.GUID = v.Primary.DiskGUID
			res.Probe("auto-disk-guid")
		}
	}
	oldCanon, newCanon := old.canon(), nw.canon()

	// explicit crash ops (replay of a narrowed trace)?
	var explicit []core.Op
	for _, o := range t.Ops {
		if o.K == "crash" {
			explicit = append(explicit, o)
		}
	}

	// judge one crash image
	repairs := 0
	judge := func(img *simdisk.Disk, k int, bits string, complete bool) *core.Violation {
		res.Evals++
		var tb *gpt.Table
		var err error
		trig := fmt.Sprintf("crash(prefix=%s)", prefixClass(evs, k))
		if complete {
			trig = "complete"
		}
		if pk, pv, loc, _ := core.Guard(func() { tb, err = gpt.Read(img, int(lss), int(pss)) }); pk {
			return &core.Violation{Clause: "C09.panic", Trigger: trig, Locus: loc, Detail: fmt.Sprintf("gpt.Read panicked: %v (k=%d bits=%s)", pv, k, bits)}
		}
		view := indep.ReadGPT(img, lss)
		mk := func(clause, detail string) *core.Violation {
			return &core.Violation{Clause: "C09." + clause, Trigger: trig, Locus: "partition/gpt.Read",
				Detail: fmt.Sprintf("%s\n crash after %d of %d device events, persisted sector subset %q\n old=%s\n new=%s\n independent parser: primary valid=%v (%v) backup valid=%v (%v)", detail, k, len(evs), bits, oldCanon, newCanon, view.Primary != nil, view.PrimaryErr, view.Backup != nil, view.BackupErr)}
		}
		if err != nil {
			if oldKind != 2 && !complete {
				return nil // pre-write outcome class (no table) is allowed while converting a blank disk
			}
			return mk("read-error", "gpt.Read failed on a crash image: "+err.Error())
		}
		got := canonOfTable(tb, gptSpec{GUID: "x"})
		switch {
		case got == newCanon:
			res.Probe("new-visible")
		case oldKind == 2 && got == oldCanon:
			res.Probe("old-survived")
			if complete {
				return mk("complete-not-new", "after the complete Write the table read back is the old one")
			}
		default:
			return mk("mixture", "table read back is neither old nor new: "+got)
		}
		if tb.RecoveredFromBackup {
			res.Probe("backup-used")
			if complete {
				return mk("complete-from-backup", "a completed Write read back from the backup copy")
			}
			if view.Primary != nil {
				return mk("backup-preferred-over-valid-primary", "independent parser finds the primary copy valid but the library reported RecoveredFromBackup")
			}
		} else if view.Primary == nil {
			return mk("invalid-primary-accepted", fmt.Sprintf("library returned the primary copy that the independent parser rejects: %v", view.PrimaryErr))
		}
		if tb.RecoveredFromBackup && !complete && repairs < 3 {
			// the repair every tool performs on such a disk: the table that was recovered is written back. That is
			// a completed Write, so it reads back from the primary copy, as the same table.
			repairs++
			res.Probe("repair-after-recovery")
			rimg := img.Clone()
			var rerr error
			var tb2 *gpt.Table
			if pk, pv, loc, _ := core.Guard(func() {
				if rerr = tb.Write(rimg, size); rerr == nil {
					tb2, rerr = gpt.Read(rimg, int(lss), int(pss))
				}
			}); pk {
				return &core.Violation{Clause: "C09.panic", Trigger: trig + ":repair", Locus: loc, Detail: fmt.Sprintf("writing back the recovered table panicked: %v (k=%d bits=%s)", pv, k, bits)}
			}
			switch {
			case rerr != nil:
				return mk("repair-failed", "writing back the table recovered from the backup, or reading it afterwards, failed: "+rerr.Error())
			case tb2.RecoveredFromBackup || indep.ReadGPT(rimg, lss).Primary == nil:
				return mk("repair-not-from-primary", "the recovered table was written back completely, yet the primary copy is still not valid")
			case canonOfTable(tb2, gptSpec{GUID: "x"}) != got:
				return mk("repair-changed-table", "the recovered table reads back differently after being written back: "+canonOfTable(tb2, gptSpec{GUID: "x"}))
			}
		}
		if oldKind == 2 {
			var pt partition.Table
			if pk, pv, loc, _ := core.Guard(func() { pt, err = partition.Read(img, int(lss), int(pss)) }); pk {
				return &core.Violation{Clause: "C09.panic", Trigger: trig, Locus: loc, Detail: fmt.Sprintf("partition.Read panicked: %v", pv)}
			}
			if err != nil {
				return mk("read-error", "partition.Read failed on a crash image: "+err.Error())
			}
			g2, ok := pt.(*gpt.Table)
			if !ok {
				return mk("typed-as-mbr", "partition.Read returned a "+pt.Type()+" table for a GPT disk")
			}
			if c := canonOfTable(g2, gptSpec{GUID: "x"}); c != got {
				return mk("mixture", "partition.Read and gpt.Read disagree: "+c)
			}
		}
		return nil
	}

	build := func(k int, pick func(i int) bool) (*simdisk.Disk, int) {
		img := base.Clone()
		var inflight []crashEv
		for i := 0; i < k; i++ {
			if evs[i].write {
				inflight = append(inflight, evs[i])
			} else {
				for _, w := range inflight {
					img.Poke(w.off, w.data)
				}
				inflight = nil
			}
		}
		n := 0
		for _, w := range inflight {
			for so := int64(0); so < int64(len(w.data)); {
				// sector boundaries are absolute
				end := ((w.off+so)/lss+1)*lss - w.off
				if end > int64(len(w.data)) {
					end = int64(len(w.data))
				}
				if pick(n) {
					img.Poke(w.off+so, w.data[so:end])
				}
				n++
				so = end
			}
		}
		return img, n
	}

	report := func(v *core.Violation, k int, bits string) *core.Result {
		res.V = v
		nt := t.Clone()
		var ops []core.Op
		for _, o := range nt.Ops {
			if o.K != "crash" {
				ops = append(ops, o)
			}
		}
		nt.Ops = append(ops, core.Op{K: "crash", A: int64(k), S: bits})
		res.Narrow = nt
		v.OpIndex = len(nt.Ops) - 1
		return res
	}

	if len(explicit) > 0 {
		for _, o := range explicit {
			k := int(o.A)
			if k > len(evs) {
				k = len(evs)
			}
			if k < 0 {
				k = 0
			}
			bits := o.S
			img, n := build(k, func(i int) bool { return i < len(bits) && bits[i] == '1' })
			res.Fault("crash")
			if v := judge(img, k, bits, k == len(evs) && n == 0); v != nil {
				return report(v, k, bits)
			}
		}
		return res
	}

	rng := core.NewRng(core.Mix(t.Seed, 0xC09))
	for k := 0; k <= len(evs); k++ {
		_, n := build(k, func(int) bool { return false })
		if n == 0 {
			img, _ := build(k, func(int) bool { return false })
			res.Fault("crash")
			res.Hashes = append(res.Hashes, core.Mix(t.Seed, uint64(k), 0))
			if v := judge(img, k, "", k == len(evs)); v != nil {
				return report(v, k, "")
			}
			continue
		}
		if n > 1 {
			res.Probe("torn-array-write")
		}
		var subsets []string
		mkbits := func(f func(i int) bool) string {
			b := make([]byte, n)
			for i := range b {
				if f(i) {
					b[i] = '1'
				} else {
					b[i] = '0'
				}
			}
			return string(b)
		}
		if n <= 12 {
			res.Probe("exhaustive-window")
			for m := 0; m < 1<<uint(n); m++ {
				subsets = append(subsets, mkbits(func(i int) bool { return m>>uint(i)&1 == 1 }))
			}
		} else {
			subsets = append(subsets, mkbits(func(int) bool { return false }), mkbits(func(int) bool { return true }))
			for j := 0; j < n; j++ {
				subsets = append(subsets, mkbits(func(i int) bool { return i == j }), mkbits(func(i int) bool { return i != j }))
				subsets = append(subsets, mkbits(func(i int) bool { return i <= j }), mkbits(func(i int) bool { return i >= j }))
			}
			subsets = append(subsets, mkbits(func(i int) bool { return i%2 == 0 }), mkbits(func(i int) bool { return i%2 == 1 }))
			nr := 32
			if t.Tier == "thorough" {
				nr = 256
			}
			for j := 0; j < nr; j++ {
				m := rng.U64()
				dens := rng.Intn(3)
				subsets = append(subsets, mkbits(func(i int) bool {
					bit := m>>uint(i%64)&1 == 1
					if i >= 64 {
						bit = core.Mix(m, uint64(i))&1 == 1
					}
					switch dens {
					case 1:
						return bit && core.Mix(m, uint64(i), 7)&1 == 1
					case 2:
						return bit || core.Mix(m, uint64(i), 9)&1 == 1
					}
					return bit
				}))
			}
		}
		seen := map[string]bool{}
		for _, bits := range subsets {
			if seen[bits] {
				continue
			}
			seen[bits] = true
			img, _ := build(k, func(i int) bool { return bits[i] == '1' })
			res.Fault("crash")
			if strings.Contains(bits, "1") && strings.Contains(bits, "0") {
				res.Fault("torn-write")
			} else if !strings.Contains(bits, "1") {
				res.Fault("lost-write")
			}
			res.Hashes = append(res.Hashes, core.Mix(t.Seed, uint64(k), core.HashStr(bits)))
			if v := judge(img, k, bits, false); v != nil {
				return report(v, k, bits)
			}
		}
	}
	res.Steps = res.Evals
	res.Sample = fmt.Sprintf("disk=%d lss=%d old=%d(%d parts) new=%d parts; %d device events; %d crash images", size, lss, oldKind, len(old.Parts), len(nw.Parts), len(evs), res.Evals)
	return res
}

// prefixClass names the crash point by what was in flight (for signatures): which write of
// the sequence, by ordinal among writes.
func prefixClass(evs []crashEv, k int) string {
	w, inflight := 0, 0
	for i := 0; i < k && i < len(evs); i++ {
		if evs[i].write {
			w++
			inflight++
		} else {
			inflight = 0
		}
	}
	return fmt.Sprintf("w%d,inflight=%d", w, inflight)
}
