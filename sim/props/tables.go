package props

import (
	"fmt"
	"sort"
	"strconv"
	"strings"
	"unicode/utf16"

	"dsim/core"
	"dsim/indep"
	"dsim/simdisk"

	"github.com/diskfs/go-diskfs/partition/gpt"
	"github.com/diskfs/go-diskfs/partition/mbr"
)

// ---- GPT table specs (the reference model of a table is simply this list) ----

type gptPart struct {
	Index      int
	Start, End uint64 // LBAs, inclusive
	Spelling   int    // 0: start+end, 1: start+size, 2: start+end+size
	Name       string
	Type       string
	GUID       string // may be "" (auto)
	Attr       uint64
}

type gptSpec struct {
	GUID  string
	Parts []gptPart
}

func genGUID(r *core.Rng) string {
	a, b := r.U64(), r.U64()
	return strings.ToUpper(fmt.Sprintf("%08x-%04x-%04x-%04x-%012x", uint32(a), uint16(a>>32), uint16(a>>48), uint16(b), b>>16))
}

var knownTypes = []string{
	string(gpt.EFISystemPartition), string(gpt.LinuxFilesystem), string(gpt.MicrosoftBasicData), string(gpt.LinuxSwap), string(gpt.BIOSBoot),
}

var nameAlphabet = []rune("abcXYZ019 _-.éßЖ中あ")

func genName(r *core.Rng) string {
	units := r.Intn(37)
	if r.Chance(15) {
		units = 36
	}
	var rs []rune
	used := 0
	for used < units {
		if units-used >= 2 && r.Chance(12) {
			rs = append(rs, rune(0x1F600+r.Intn(64))) // non-BMP: two UTF-16 units
			used += 2
			continue
		}
		rs = append(rs, nameAlphabet[r.Intn(len(nameAlphabet))])
		used++
	}
	return string(rs)
}

func nameUnits(s string) int { return len(utf16.Encode([]rune(s))) }

// genGPT draws a table of non-overlapping partitions inside the usable range of the disk.
func genGPT(r *core.Rng, diskSectors uint64, lss int, maxParts int, allowAutoGUID bool) gptSpec {
	arr := uint64((128*128 + lss - 1) / lss)
	first := 2 + arr
	last := diskSectors - 2 - arr
	s := gptSpec{GUID: genGUID(r)}
	if allowAutoGUID && r.Chance(20) {
		s.GUID = ""
	}
	if last <= first {
		return s
	}
	n := 0
	switch r.PickW(10, 50, 30, 10) {
	case 0:
		n = 0
	case 1:
		n = 1 + r.Intn(4)
	case 2:
		n = 1 + r.Intn(16)
	case 3:
		n = 1 + r.Intn(maxParts)
	}
	if n > maxParts {
		n = maxParts
	}
	// distinct indices
	idx := map[int]bool{}
	var idxs []int
	for len(idxs) < n {
		var i int
		if r.Chance(60) {
			i = len(idxs) + 1
		} else {
			i = 1 + r.Intn(128)
		}
		if !idx[i] {
			idx[i] = true
			idxs = append(idxs, i)
		}
	}
	// cut points
	span := last - first + 1
	if uint64(n) > span {
		n = int(span)
		idxs = idxs[:n]
	}
	cuts := map[uint64]bool{}
	for len(cuts) < 2*n {
		cuts[first+uint64(r.Int63n(int64(span)))] = true
		if span < uint64(4*n) { // tiny disks: fall back to unit partitions
			break
		}
	}
	var cs []uint64
	for c := range cuts {
		cs = append(cs, c)
	}
	sort.Slice(cs, func(i, j int) bool { return cs[i] < cs[j] })
	for i := 0; i+1 < len(cs) && i/2 < n; i += 2 {
		p := gptPart{Index: idxs[i/2], Start: cs[i], End: cs[i+1] - 1}
		if p.End < p.Start {
			p.End = p.Start
		}
		p.Spelling = r.Intn(3)
		p.Name = genName(r)
		if r.Chance(50) {
			p.Type = knownTypes[r.Intn(len(knownTypes))]
		} else {
			p.Type = genGUID(r)
		}
		p.GUID = genGUID(r)
		if allowAutoGUID && r.Chance(20) {
			p.GUID = ""
		}
		switch r.Intn(4) {
		case 0:
		case 1:
			p.Attr = 1 << uint(r.Intn(64))
		case 2:
			p.Attr = r.U64()
		case 3:
			p.Attr = 1<<63 | 1
		}
		s.Parts = append(s.Parts, p)
	}
	// unordered slice order
	if r.Chance(40) {
		for i := len(s.Parts) - 1; i > 0; i-- {
			j := r.Intn(i + 1)
			s.Parts[i], s.Parts[j] = s.Parts[j], s.Parts[i]
		}
	}
	return s
}

func (s gptSpec) ops(kind string) []core.Op {
	var o []core.Op
	for _, p := range s.Parts {
		o = append(o, core.Op{K: kind, A: int64(p.Index), B: int64(p.Start), C: int64(p.End), D: int64(p.Spelling),
			P: p.Name, Q: p.Type, S: p.GUID + "|" + strconv.FormatUint(p.Attr, 16)})
	}
	return o
}

func gptFromOps(ops []core.Op, kind, guid string) gptSpec {
	s := gptSpec{GUID: guid}
	for _, o := range ops {
		if o.K != kind {
			continue
		}
		p := gptPart{Index: int(o.A), Start: uint64(o.B), End: uint64(o.C), Spelling: int(o.D), Name: o.P, Type: o.Q}
		parts := strings.SplitN(o.S, "|", 2)
		p.GUID = parts[0]
		if len(parts) == 2 {
			p.Attr, _ = strconv.ParseUint(parts[1], 16, 64)
		}
		s.Parts = append(s.Parts, p)
	}
	return s
}

func (s gptSpec) table(lss, pss int) *gpt.Table {
	t := &gpt.Table{LogicalSectorSize: lss, PhysicalSectorSize: pss, GUID: s.GUID, ProtectiveMBR: true}
	for _, p := range s.Parts {
		gp := &gpt.Partition{Index: p.Index, Start: p.Start, Type: gpt.Type(p.Type), Name: p.Name, GUID: p.GUID, Attributes: p.Attr}
		size := (p.End - p.Start + 1) * uint64(lss)
		switch p.Spelling {
		case 0:
			gp.End = p.End
		case 1:
			gp.Size = size
		default:
			gp.End = p.End
			gp.Size = size
		}
		t.Partitions = append(t.Partitions, gp)
	}
	return t
}

// canon renders a spec in canonical text form, partitions ordered by index; GUIDs that were
// left to the library ("") are rendered as "*".
func (s gptSpec) canon() string {
	ps := append([]gptPart(nil), s.Parts...)
	sort.Slice(ps, func(i, j int) bool { return ps[i].Index < ps[j].Index })
	var sb strings.Builder
	g := s.GUID
	if g == "" {
		g = "*"
	}
	fmt.Fprintf(&sb, "disk=%s;", g)
	for _, p := range ps {
		pg := p.GUID
		if pg == "" {
			pg = "*"
		}
		fmt.Fprintf(&sb, "[%d %d-%d %s %q %s %x]", p.Index, p.Start, p.End, strings.ToUpper(p.Type), p.Name, pg, p.Attr)
	}
	return sb.String()
}

// canonOfTable renders what the library read back in the same form.
func canonOfTable(t *gpt.Table, like gptSpec) string {
	s := gptSpec{GUID: strings.ToUpper(t.GUID)}
	if like.GUID == "" {
		s.GUID = ""
	}
	auto := map[int]bool{}
	for _, p := range like.Parts {
		if p.GUID == "" {
			auto[p.Index] = true
		}
	}
	for _, p := range t.Partitions {
		gp := gptPart{Index: p.Index, Start: p.Start, End: p.End, Name: p.Name, Type: string(p.Type), GUID: strings.ToUpper(p.GUID), Attr: p.Attributes}
		if auto[p.Index] {
			gp.GUID = ""
		}
		s.Parts = append(s.Parts, gp)
	}
	return s.canon()
}

// canonOfIndep renders the independent parser's view in the same form.
func canonOfIndep(h *indep.GPTHeader, es []indep.GPTEntry, like gptSpec) string {
	s := gptSpec{GUID: h.DiskGUID}
	if like.GUID == "" {
		s.GUID = ""
	}
	auto := map[int]bool{}
	for _, p := range like.Parts {
		if p.GUID == "" {
			auto[p.Index] = true
		}
	}
	for _, e := range es {
		gp := gptPart{Index: e.Index, Start: e.First, End: e.Last, Name: e.Name(), Type: e.TypeGUID, GUID: e.GUID, Attr: e.Attributes}
		if auto[e.Index] {
			gp.GUID = ""
		}
		s.Parts = append(s.Parts, gp)
	}
	return s.canon()
}

// ---- MBR specs ----

type mbrPart struct {
	Bootable    bool
	Type        byte
	Start, Size uint32
}

type mbrSpec struct{ Parts []mbrPart }

func genMBR(r *core.Rng, diskSectors uint64) mbrSpec {
	n := r.Intn(5)
	var s mbrSpec
	for i := 0; i < n; i++ {
		p := mbrPart{Bootable: r.Chance(25), Type: byte(r.Intn(256))}
		if r.Chance(60) {
			p.Type = core.PickOf[byte](r, 0x83, 0x0b, 0x0c, 0xef, 0x82, 0x07, 0x00)
		}
		switch r.Intn(4) {
		case 0:
			p.Start, p.Size = uint32(r.U64()), uint32(r.U64())
		case 1:
			p.Start, p.Size = 0xFFFFFFFF, 0xFFFFFFFF
		default:
			lim := diskSectors
			if lim > 0xFFFFFFFF {
				lim = 0xFFFFFFFF
			}
			if lim < 4 {
				lim = 4
			}
			p.Start = uint32(1 + r.Int63n(int64(lim-2)))
			p.Size = uint32(1 + r.Int63n(int64(lim-uint64(p.Start))))
		}
		s.Parts = append(s.Parts, p)
	}
	return s
}

func (s mbrSpec) ops(kind string) []core.Op {
	var o []core.Op
	for _, p := range s.Parts {
		b := int64(0)
		if p.Bootable {
			b = 1
		}
		o = append(o, core.Op{K: kind, A: b, B: int64(p.Type), C: int64(p.Start), D: int64(p.Size)})
	}
	return o
}

func mbrFromOps(ops []core.Op, kind string) mbrSpec {
	var s mbrSpec
	for _, o := range ops {
		if o.K == kind && len(s.Parts) < 4 {
			s.Parts = append(s.Parts, mbrPart{Bootable: o.A != 0, Type: byte(o.B), Start: uint32(o.C), Size: uint32(o.D)})
		}
	}
	return s
}

func (s mbrSpec) table(lss, pss int) *mbr.Table {
	t := &mbr.Table{LogicalSectorSize: lss, PhysicalSectorSize: pss}
	for i, p := range s.Parts {
		t.Partitions = append(t.Partitions, &mbr.Partition{Index: i + 1, Bootable: p.Bootable, Type: mbr.Type(p.Type), Start: p.Start, Size: p.Size})
	}
	return t
}

func (s mbrSpec) canon() string {
	var sb strings.Builder
	for i := 0; i < 4; i++ {
		var p mbrPart
		if i < len(s.Parts) {
			p = s.Parts[i]
		}
		fmt.Fprintf(&sb, "[%d %v %02x %d+%d]", i+1, p.Bootable, p.Type, p.Start, p.Size)
	}
	return sb.String()
}

func canonOfMBR(t *mbr.Table) string {
	var s mbrSpec
	for _, p := range t.Partitions {
		s.Parts = append(s.Parts, mbrPart{Bootable: p.Bootable, Type: byte(p.Type), Start: p.Start, Size: p.Size})
	}
	return s.canon()
}

// newNoisyDisk returns a disk optionally filled with noise in its first and last MiB.
func newNoisyDisk(size int64, noise bool, seed uint64) *simdisk.Disk {
	d := simdisk.New(size)
	if noise {
		n := int64(1 << 20)
		if n > size {
			n = size
		}
		d.FillNoise(0, n, seed)
		d.FillNoise(size-n, n, seed+1)
	}
	return d
}
