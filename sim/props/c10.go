package props

import (
	"bytes"
	"encoding/binary"
	"fmt"
	"io"
	"os"

	"dsim/core"
	"dsim/simdisk"

	"github.com/diskfs/go-diskfs/filesystem"
)

// C10 — File handles honour the Read/Seek contract on every filesystem.
//
// One run = one image of a seeded filesystem kind holding files whose sizes sit on unit
// boundaries, and a seeded history of Read(len)/Seek(off,whence)/Close on handles, compared
// call by call with a cursor model (bytes.Reader semantics with io.Reader laxity).
type c10 struct{}

func init() { core.Register(c10{}) }

func (c10) ID() string    { return "C10" }
func (c10) Level() string { return "exploration" }
func (c10) Rule() string {
	return "one evaluation = one Read/Seek/Close call in a seeded history (1..60 calls; Read sizes 0,1,odd,unit-1,unit,unit+1,huge; Seek start/current/end with positive, zero, negative offsets, also past EOF; Read after Close) on a handle of a file of known content (sizes 0,1,unit-1,unit,unit+1,k*unit+tail, multi-unit) on fat12/16/32, ext4 (library-written and mke2fs-written), iso9660 (plain, Rock Ridge, Joliet) and squashfs (gzip/xz/lz4/zstd, no-compression, no-fragments) images on the simulated device, also at a non-zero start; distinct = distinct (fs kind, size class, call class sequence); non-trivial = history with at least one non-empty read after a seek"
}
func (c10) Assumptions() []string {
	return []string{
		"io.Reader laxity is honoured: short reads and (n,EOF) vs (n,nil)+(0,EOF) are both accepted; a non-empty read may not return (0,nil) three times in a row",
		"after Close, Read must return n=0 and a non-nil error; Seek after Close is not judged",
		"invalid whence values are outside the statement and not issued",
	}
}
func (c10) Components() map[string][]string {
	return map[string][]string{
		"real": {"File.Read/Seek/Close of filesystem/fat12 (fat16, fat32), ext4, iso9660, squashfs", "image writers of the same packages", "mke2fs 1.47 as reference ext4 writer"},
		"stub": {"block device (SimDisk)", "host scratch directory as ISO/squashfs workspace", "cursor model"},
	}
}
func (c10) ProbeNames() []string {
	ps := []string{"read-at-eof", "seek-negative-target", "seek-past-eof", "read-after-close", "zero-len-read", "file-with-holes", "file-beyond-4GiB", "squashfs-sparse-block"}
	for _, k := range fsKinds {
		ps = append(ps, "kind-"+k)
	}
	return ps
}
func (c10) Budget(tier string) (int, int, int) {
	if tier == "thorough" {
		return 900, 1 << 30, 300
	}
	return 45, 1 << 30, 120
}

func (c10) Gen(r *core.Rng, tier string, idx int) *core.Trace {
	t := &core.Trace{Cfg: map[string]int64{}, CfgS: map[string]string{}}
	kind := fsKinds[idx%len(fsKinds)]
	t.CfgS["kind"] = kind
	t.Cfg["start"] = core.PickOf[int64](r, 0, 0, 1<<20, 512*7)
	t.Cfg["bs"] = 0
	switch {
	case kind == "ext4" || kind == "ext4-mke2fs":
		t.Cfg["bs"] = core.PickOf[int64](r, 1024, 4096)
		if kind == "ext4-mke2fs" {
			t.Cfg["bs"] = core.PickOf[int64](r, 1024, 2048, 4096)
		}
	case kind[:3] == "iso":
		t.Cfg["bs"] = core.PickOf[int64](r, 2048, 2048, 4096, 8192)
	case kind[:3] == "squ":
		t.Cfg["bs"] = core.PickOf[int64](r, 4096, 8192, 131072)
		t.Cfg["sqcomp"] = int64(r.Intn(4))
	}
	t.Cfg["sizeclass"] = int64(r.Intn(10))
	t.Cfg["sizek"] = r.Range(2, 9)
	t.Cfg["tag"] = int64(r.U64() >> 2)
	n := 1 + r.Intn(60)
	if r.Chance(25) {
		n = 1 + r.Intn(5)
	}
	for i := 0; i < n; i++ {
		switch r.PickW(55, 38, 4, 3) {
		case 0:
			t.Ops = append(t.Ops, core.Op{K: "read", A: int64(r.Intn(8)), B: r.Range(2, 70000)})
		case 1:
			t.Ops = append(t.Ops, core.Op{K: "seek", A: int64(r.Intn(8)), B: int64(r.Intn(3)), C: r.Range(0, 5000)})
		case 2:
			t.Ops = append(t.Ops, core.Op{K: "close"})
		case 3:
			t.Ops = append(t.Ops, core.Op{K: "open"})
		}
	}
	return t
}

func sizeForClass(class, k, unit int64) int64 {
	switch class {
	case 0:
		return 0
	case 1:
		return 1
	case 2:
		return unit - 1
	case 3:
		return unit
	case 4:
		return unit + 1
	case 5:
		return k*unit + unit/3 + 1
	case 6:
		return k * unit
	case 7:
		return 700
	case 8:
		return 12*unit + 5
	}
	return 3*unit - 1
}

func (p c10) Exec(t *core.Trace) *core.Result {
	res := core.NewResult()
	kind := t.Sg("kind")
	ok := false
	for _, k := range fsKinds {
		if k == kind {
			ok = true
		}
	}
	if !ok {
		kind = "fat12"
	}
	start := t.I("start")
	if start < 0 || start > 1<<30 {
		start = 0
	}
	opt := map[string]int64{"bs": t.I("bs"), "sqcomp": t.I("sqcomp")}
	// natural unit for the size classes
	unit := int64(512)
	switch {
	case kind == "fat12" || kind == "fat16":
		unit = 2048
	case kind == "fat32":
		unit = 512
	default:
		if opt["bs"] > 0 {
			unit = opt["bs"]
		}
	}
	if unit > 1<<17 {
		unit = 1 << 17
	}
	size := sizeForClass(t.I("sizeclass")%10, t.I("sizek")%16+1, unit)
	content := core.PatternBytes(uint64(t.I("tag")), size)
	other := core.PatternBytes(uint64(t.I("tag"))+1, unit+17)
	sparse := false
	if kind == "ext4-mke2fs" && t.I("tag")%2 == 0 && size > 3*4096 {
		// holes inside the file (every other 4 KiB page): a single Read then runs from data into a hole and back
		sparse = true
		for off := int64(4096); off+4096 <= size; off += 8192 {
			clear(content[off : off+4096])
		}
		res.Probe("file-with-holes")
	}
	tree := []imgEntry{
		{Path: "BEFORE.BIN", Data: other},
		{Path: "DIR", Dir: true},
		{Path: "DIR/TARGET.DAT", Data: content, Sparse: sparse},
		{Path: "AFTER.BIN", Data: other},
	}
	// a file of more than 4 GiB (two data runs around a hole of 5 GiB) next to the target, on the volumes mke2fs builds
	var far *imgEntry
	if kind == "ext4-mke2fs" && t.I("tag")%4 < 2 {
		far = &imgEntry{Path: "FAR.DAT", Data: core.PatternBytes(uint64(t.I("tag"))+2, 16384), FarOff: 5<<30 + 4096*int64(t.I("tag")%7)}
		tree = append(tree, *far)
	}
	// a file with a sparse block between two data blocks, on the uncompressed squashfs image (made sparse below, the
	// way mksquashfs stores an all-zero block: size word 0, no data)
	var sparse3 []byte
	if kind == "squashfs-nocomp" && unit >= 4096 && unit <= 1<<17 && t.I("tag")%2 == 0 {
		sparse3 = make([]byte, 3*unit)
		copy(sparse3, core.PatternBytes(uint64(t.I("tag"))+31, unit))
		copy(sparse3[2*unit:], core.PatternBytes(uint64(t.I("tag"))+32, unit))
		for i := int64(0); i < unit; i += 64 { // (no zero page inside the data blocks, nothing compressible to confuse the search)
			sparse3[i] |= 1
			sparse3[2*unit+i] |= 1
		}
		tree = append(tree, imgEntry{Path: "SPARSE3.BIN", Data: sparse3})
	}
	fail := func(i int, clause, trig, locus, detail string) *core.Result {
		res.V = &core.Violation{Clause: "C10." + clause, Trigger: kindFamily(kind) + ":" + trig, Locus: locus, Detail: detail, OpIndex: i}
		return res
	}
	var bi *builtImage
	var berr error
	if pk, pv, loc, _ := core.Guard(func() { bi, berr = buildImage(kind, tree, start, opt) }); pk {
		res.Evals = 1
		res.Sample = fmt.Sprintf("image build panicked (%v at %s): not this property's clause", pv, loc)
		res.Probe("build-failed")
		return res
	}
	if berr != nil {
		res.Evals = 1
		res.Sample = "image build refused: " + berr.Error()
		res.Probe("build-failed")
		return res
	}
	res.Probe("kind-" + kind)
	if sparse3 != nil {
		if c10MakeSparse(bi.D, start, bi.Size, unit, sparse3) {
			res.Probe("squashfs-sparse-block")
		} else {
			sparse3 = nil
		}
	}
	var fs filesystem.FileSystem
	var err error
	if pk, pv, loc, _ := core.Guard(func() { fs, err = bi.Open(bi.D.Clone()) }); pk {
		return fail(-1, "panic", "open-image:"+core.PanicClass(pv), loc, fmt.Sprint(pv))
	}
	if err != nil {
		// an image that cannot be re-opened is C06/C07/C04 territory, not the handle contract
		res.Evals = 1
		res.Sample = "image could not be re-opened: " + err.Error()
		res.Probe("build-failed")
		return res
	}
	path := bi.PathOf("DIR/TARGET.DAT")
	locus := "filesystem/" + kindPkg(kind) + ".(*File)"
	var f filesystem.File
	open := func(i int) *core.Result {
		var e error
		if pk, pv, loc, _ := core.Guard(func() { f, e = fs.OpenFile(path, os.O_RDONLY) }); pk {
			return fail(i, "panic", "open:"+core.PanicClass(pv), loc, fmt.Sprint(pv))
		}
		if e != nil {
			return fail(i, "open-file", "open", locus, fmt.Sprintf("OpenFile(%q): %v", path, e))
		}
		return nil
	}
	if r := open(-1); r != nil {
		return r
	}
	pos := int64(0)
	closed := false
	zeroRuns := 0
	hist := core.Mix(core.HashStr(kind), uint64(t.I("sizeclass")))
	nontrivial := false
	sawSeek := false
	for i, o := range t.Ops {
		res.Steps++
		res.Evals++
		switch o.K {
		case "open":
			if !closed {
				continue
			}
			if r := open(i); r != nil {
				return r
			}
			closed, pos = false, 0
			hist = core.Mix(hist, 1)
		case "close":
			if closed {
				continue
			}
			var e error
			if pk, pv, loc, _ := core.Guard(func() { e = f.Close() }); pk {
				return fail(i, "panic", "close:"+core.PanicClass(pv), loc, fmt.Sprint(pv))
			}
			_ = e
			closed = true
			hist = core.Mix(hist, 2)
		case "read":
			var n int64
			switch o.A % 8 {
			case 0:
				n = 0
			case 1:
				n = 1
			case 2:
				n = o.B | 1
			case 3:
				n = unit - 1
			case 4:
				n = unit
			case 5:
				n = unit + 1
			case 6:
				n = 3*unit + 7
			case 7:
				n = size + unit + 100
			}
			if n < 0 {
				n = 0
			}
			if n > 2<<20 {
				n = 2 << 20
			}
			buf := make([]byte, n)
			var got int
			var e error
			trig := fmt.Sprintf("read(%s)", readClass(n, pos, size, unit))
			if closed {
				trig = "read-after-close"
			}
			if pk, pv, loc, _ := core.Guard(func() { got, e = f.Read(buf) }); pk {
				return fail(i, "panic", trig+":"+core.PanicClass(pv), loc, fmt.Sprintf("Read(%d bytes) at position %d of a %d-byte file panicked: %v", n, pos, size, pv))
			}
			hist = core.Mix(hist, 3, uint64(o.A%8))
			if closed {
				res.Probe("read-after-close")
				if got != 0 || e == nil {
					return fail(i, "read-after-close", trig, locus+".Read", fmt.Sprintf("Read after Close returned n=%d err=%v", got, e))
				}
				continue
			}
			remaining := size - pos
			if remaining < 0 {
				remaining = 0
			}
			if n == 0 {
				res.Probe("zero-len-read")
				if got != 0 || (e != nil && !(e == io.EOF && remaining == 0)) {
					return fail(i, "zero-length-read", trig, locus+".Read", fmt.Sprintf("Read(empty buffer) at position %d of %d returned n=%d err=%v", pos, size, got, e))
				}
				continue
			}
			if remaining == 0 {
				res.Probe("read-at-eof")
				if got != 0 || e != io.EOF {
					return fail(i, "eof", trig, locus+".Read", fmt.Sprintf("Read(%d) at position %d (file size %d) returned n=%d err=%v, want 0, io.EOF", n, pos, size, got, e))
				}
				continue
			}
			max := n
			if remaining < max {
				max = remaining
			}
			if int64(got) > max {
				return fail(i, "bytes-past-eof", trig, locus+".Read", fmt.Sprintf("Read(%d) at position %d of a %d-byte file returned n=%d: %d more than remain", n, pos, size, got, int64(got)-max))
			}
			if got < 0 {
				return fail(i, "negative-count", trig, locus+".Read", fmt.Sprintf("n=%d", got))
			}
			if e != nil && e != io.EOF {
				return fail(i, "read-error", trig, locus+".Read", fmt.Sprintf("Read(%d) at position %d of %d failed: %v", n, pos, size, e))
			}
			for k := 0; k < got; k++ {
				if buf[k] != content[pos+int64(k)] {
					return fail(i, "wrong-bytes", trig, locus+".Read", fmt.Sprintf("Read(%d) at position %d of %d: byte %d of the result is %#02x, file has %#02x", n, pos, size, k, buf[k], content[pos+int64(k)]))
				}
			}
			if e == io.EOF && pos+int64(got) != size {
				return fail(i, "early-eof", trig, locus+".Read", fmt.Sprintf("Read(%d) at position %d of %d returned n=%d with io.EOF before the end", n, pos, size, got))
			}
			if got == 0 && e == nil {
				zeroRuns++
				if zeroRuns >= 3 {
					return fail(i, "no-progress", trig, locus+".Read", "three consecutive non-empty reads returned (0, nil)")
				}
			} else {
				zeroRuns = 0
			}
			if int64(got) < max {
				res.Probe("short-read-accepted")
			}
			pos += int64(got)
			if sawSeek && got > 0 {
				nontrivial = true
			}
		case "seek":
			if closed {
				continue
			}
			whence := int(o.B % 3)
			var off int64
			switch o.A % 8 {
			case 0:
				off = 0
			case 1:
				off = o.C % (size + 1)
			case 2:
				off = -(o.C % (size + 1))
			case 3:
				off = size + o.C%1000 + 1
			case 4:
				off = -(size + o.C%1000 + 1)
			case 5:
				off = unit
			case 6:
				off = -1
			case 7:
				off = 1
			}
			var base int64
			switch whence {
			case io.SeekCurrent:
				base = pos
			case io.SeekEnd:
				base = size
			}
			target := base + off
			trig := fmt.Sprintf("seek(%s,%s)", [...]string{"start", "current", "end"}[whence], sgn(off))
			var np int64
			var e error
			if pk, pv, loc, _ := core.Guard(func() { np, e = f.Seek(off, whence) }); pk {
				return fail(i, "panic", trig+":"+core.PanicClass(pv), loc, fmt.Sprint(pv))
			}
			hist = core.Mix(hist, 4, uint64(whence), uint64(o.A%8))
			sawSeek = true
			if target < 0 {
				res.Probe("seek-negative-target")
				if e == nil {
					return fail(i, "seek-negative-accepted", trig, locus+".Seek", fmt.Sprintf("Seek(%d, %d) from position %d of %d targets %d but returned (%d, nil)", off, whence, pos, size, target, np))
				}
				// cursor must be unchanged: verified by the next read against pos
				continue
			}
			if e != nil {
				return fail(i, "seek-error", trig, locus+".Seek", fmt.Sprintf("Seek(%d, %d) from position %d of %d failed: %v", off, whence, pos, size, e))
			}
			if np != target {
				return fail(i, "seek-position", trig, locus+".Seek", fmt.Sprintf("Seek(%d, %d) from position %d of a %d-byte file returned %d, io.Seeker says %d", off, whence, pos, size, np, target))
			}
			if target > size {
				res.Probe("seek-past-eof")
			}
			pos = target
		}
	}
	if !closed {
		core.Guard(func() { f.Close() })
	}
	if sparse3 != nil {
		if r := c10Plain(res, fs, bi.PathOf("SPARSE3.BIN"), sparse3, unit, uint64(t.I("tag")), fail, locus); r != nil {
			return r
		}
		hist = core.Mix(hist, 78)
	}
	if far != nil {
		if r := c10Far(res, fs, bi.PathOf(far.Path), far, uint64(t.I("tag")), fail, locus); r != nil {
			return r
		}
		hist = core.Mix(hist, 77)
	}
	res.DevOps = bi.D.St.Reads
	if nontrivial {
		res.Hashes = append(res.Hashes, hist)
	}
	res.Sample = fmt.Sprintf("%s size=%d unit=%d start=%d | %s", kind, size, unit, start, t.Summary())
	return res
}

func sgn(v int64) string {
	switch {
	case v < 0:
		return "neg"
	case v > 0:
		return "pos"
	}
	return "zero"
}

func readClass(n, pos, size, unit int64) string {
	rem := size - pos
	c := "mid-unit"
	if pos%unit == 0 {
		c = "aligned"
	}
	switch {
	case n == 0:
		return "len0"
	case rem <= 0:
		return "at-eof"
	case n > rem:
		return "len>remaining," + c
	}
	return "len<=remaining," + c
}

func kindFamily(kind string) string {
	switch {
	case kind[:3] == "fat":
		return "fat"
	case kind[:3] == "ext":
		return "ext4"
	case kind[:3] == "iso":
		return "iso9660"
	}
	return "squashfs"
}
func kindPkg(kind string) string {
	switch kindFamily(kind) {
	case "fat":
		return "fat12"
	case "ext4":
		return "ext4"
	case "iso9660":
		return "iso9660"
	}
	return "squashfs"
}

// c10Far drives Seek/Read on a file whose second data run lies beyond 4 GiB: positions around the 32-bit mark,
// around the start of the far run and around the end of the file, with all three whence values.
func c10Far(res *core.Result, fs filesystem.FileSystem, path string, e *imgEntry, tag uint64, fail func(int, string, string, string, string) *core.Result, locus string) *core.Result {
	half := int64(len(e.Data) / 2)
	size := e.FarOff + half
	at := func(off int64) byte {
		switch {
		case off < half:
			return e.Data[off]
		case off >= e.FarOff && off < size:
			return e.Data[half+off-e.FarOff]
		}
		return 0
	}
	var f filesystem.File
	var err error
	if pk, pv, loc, _ := core.Guard(func() { f, err = fs.OpenFile(path, os.O_RDONLY) }); pk {
		return fail(-1, "panic", "open(far):"+core.PanicClass(pv), loc, fmt.Sprint(pv))
	}
	if err != nil {
		return fail(-1, "open-file", "open(far)", locus, fmt.Sprintf("OpenFile(%q): %v", path, err))
	}
	defer func() { core.Guard(func() { f.Close() }) }()
	res.Probe("file-beyond-4GiB")
	r := core.NewRng(tag ^ 0xfa4)
	pos := int64(0)
	targets := []int64{e.FarOff - 100, e.FarOff, e.FarOff + 1, size - 50, size - 1, 1<<32 - 10, 1 << 32, half - 10, e.FarOff + half/2, 1<<32 + 4096}
	for k := 0; k < 8; k++ {
		target := targets[r.Intn(len(targets))]
		whence, off := io.SeekStart, target
		switch r.Intn(3) {
		case 1:
			whence, off = io.SeekCurrent, target-pos
		case 2:
			whence, off = io.SeekEnd, target-size
		}
		var np int64
		trig := fmt.Sprintf("seek(far,whence=%d)", whence)
		if pk, pv, loc, _ := core.Guard(func() { np, err = f.Seek(off, whence) }); pk {
			return fail(-1, "panic", trig+":"+core.PanicClass(pv), loc, fmt.Sprint(pv))
		}
		if err != nil || np != target {
			return fail(-1, "seek-position", trig, locus+".Seek", fmt.Sprintf("Seek(%d, %d) from position %d of a %d-byte file returned (%d, %v), io.Seeker says %d", off, whence, pos, size, np, err, target))
		}
		pos = target
		want := core.PickOf[int64](r, 1, 300, 5000)
		buf := make([]byte, want)
		got := int64(0)
		for tries := 0; got < want && tries < 6; tries++ {
			var n int
			if pk, pv, loc, _ := core.Guard(func() { n, err = f.Read(buf[got:]) }); pk {
				return fail(-1, "panic", "read(far):"+core.PanicClass(pv), loc, fmt.Sprint(pv))
			}
			res.Steps++
			res.Evals++
			if n < 0 || int64(n) > want-got || pos+int64(n) > size {
				return fail(-1, "read-count", "read(far)", locus+".Read", fmt.Sprintf("Read of %d bytes at %d of a %d-byte file returned n=%d", want-got, pos, size, n))
			}
			for j := int64(0); j < int64(n); j++ {
				if buf[got+j] != at(pos+j) {
					return fail(-1, "wrong-bytes", "read(far)", locus+".Read", fmt.Sprintf("byte %d of a %d-byte file (data runs [0,%d) and [%d,%d)) read as %#x, the file holds %#x", pos+j, size, half, e.FarOff, size, buf[got+j], at(pos+j)))
				}
			}
			got += int64(n)
			pos += int64(n)
			if err == io.EOF {
				if pos != size {
					return fail(-1, "early-eof", "read(far)", locus+".Read", fmt.Sprintf("io.EOF at position %d of a %d-byte file", pos, size))
				}
				break
			}
			if err != nil {
				return fail(-1, "read-error", "read(far)", locus+".Read", fmt.Sprintf("Read at %d of a %d-byte file: %v", pos, size, err))
			}
			if pos == size && n == 0 {
				return fail(-1, "eof-not-reported", "read(far)", locus+".Read", fmt.Sprintf("Read at the end (%d) returned (0, nil)", size))
			}
		}
	}
	return nil
}

// c10MakeSparse rewrites the stored form of a three-block file (data, zeros, data) of an uncompressed squashfs
// image: the third block moves up over the stored zeros and the size word of the second block becomes 0.
func c10MakeSparse(d *simdisk.Disk, start, size, unit int64, content []byte) bool {
	img := d.Peek(start, size)
	a := bytes.Index(img, content[:unit])
	if a < 0 || bytes.Index(img[a+1:], content[:unit]) >= 0 || int64(a)+3*unit > size {
		return false
	}
	if !bytes.Equal(img[int64(a)+2*unit:int64(a)+3*unit], content[2*unit:]) {
		return false
	}
	word := make([]byte, 4)
	binary.LittleEndian.PutUint32(word, uint32(unit)|1<<24)
	list := bytes.Repeat(word, 3)
	l := bytes.Index(img, list)
	if l < 0 || bytes.Index(img[l+1:], list) >= 0 {
		return false
	}
	d.Poke(start+int64(a)+unit, content[2*unit:])
	d.Poke(start+int64(l)+4, []byte{0, 0, 0, 0})
	return true
}

// c10Plain checks a file of known content: one pass from the start in pieces of seeded length, then seeded
// Seek/Read pairs (around the block boundaries most of all).
func c10Plain(res *core.Result, fs filesystem.FileSystem, path string, content []byte, unit int64, tag uint64, fail func(int, string, string, string, string) *core.Result, locus string) *core.Result {
	var f filesystem.File
	var err error
	if pk, pv, loc, _ := core.Guard(func() { f, err = fs.OpenFile(path, os.O_RDONLY) }); pk {
		return fail(-1, "panic", "open(sparse):"+core.PanicClass(pv), loc, fmt.Sprint(pv))
	}
	if err != nil {
		return fail(-1, "open-file", "open(sparse)", locus, fmt.Sprintf("OpenFile(%q): %v", path, err))
	}
	defer func() { core.Guard(func() { f.Close() }) }()
	r := core.NewRng(tag ^ 0x59a)
	size := int64(len(content))
	pos := int64(0)
	readAt := func(want int64, trig string) *core.Result {
		buf := make([]byte, want)
		var n int
		if pk, pv, loc, _ := core.Guard(func() { n, err = f.Read(buf) }); pk {
			return fail(-1, "panic", trig+":"+core.PanicClass(pv), loc, fmt.Sprint(pv))
		}
		res.Steps++
		res.Evals++
		if n < 0 || int64(n) > want || pos+int64(n) > size {
			return fail(-1, "read-count", trig, locus+".Read", fmt.Sprintf("Read of %d bytes at %d of a %d-byte file returned n=%d", want, pos, size, n))
		}
		if !bytes.Equal(buf[:n], content[pos:pos+int64(n)]) {
			return fail(-1, "wrong-bytes", trig, locus+".Read", fmt.Sprintf("Read of %d bytes at %d of a %d-byte file (blocks of %d: data, hole, data): %s", want, pos, size, unit, diffDesc(buf[:n], content[pos:pos+int64(n)])))
		}
		pos += int64(n)
		if err != nil && err != io.EOF {
			return fail(-1, "read-error", trig, locus+".Read", fmt.Sprintf("Read at %d of a %d-byte file: %v", pos, size, err))
		}
		if err == io.EOF && pos != size {
			return fail(-1, "early-eof", trig, locus+".Read", fmt.Sprintf("io.EOF at position %d of a %d-byte file", pos, size))
		}
		return nil
	}
	for guard := 0; pos < size && guard < 4000; guard++ {
		if rr := readAt(core.PickOf[int64](r, 1, 100, unit/2+1, unit, unit+1, 2*unit), "read(sparse,sequential)"); rr != nil {
			return rr
		}
	}
	for k := 0; k < 10; k++ {
		target := core.PickOf[int64](r, 0, unit-1, unit, unit+1, 2*unit-1, 2*unit, 2*unit+1, size-1, r.Range(0, size-1))
		var np int64
		if pk, pv, loc, _ := core.Guard(func() { np, err = f.Seek(target, io.SeekStart) }); pk {
			return fail(-1, "panic", "seek(sparse):"+core.PanicClass(pv), loc, fmt.Sprint(pv))
		}
		if err != nil || np != target {
			return fail(-1, "seek-position", "seek(sparse)", locus+".Seek", fmt.Sprintf("Seek(%d, start) returned (%d, %v)", target, np, err))
		}
		pos = target
		if rr := readAt(core.PickOf[int64](r, 1, 100, unit, unit+7), "read(sparse,after-seek)"); rr != nil {
			return rr
		}
	}
	return nil
}
