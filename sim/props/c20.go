package props

import (
	"bytes"
	"fmt"
	"io"
	iofs "io/fs"
	"os"
	"os/exec"
	"path"
	"path/filepath"
	"sort"
	"strings"
	"time"

	"golang.org/x/sys/unix"

	"dsim/core"
	"dsim/simdisk"

	"github.com/diskfs/go-diskfs/filesystem/ext4"
)

// C20 — ext4 volumes made by the reference mke2fs are read correctly.
//
// One run: a seeded tree (ops of the trace: directories, files, sparse files whose extent tree gets
// leaf and interior nodes, directories large enough to be hash-indexed, fast and slow symlinks, hard
// links, fifos, in-inode and block xattrs, modes/owners/times) is laid out in a host scratch
// directory, packed by /usr/sbin/mke2fs -d with a seeded option set, optionally modified further by
// debugfs -w (rm, write, symlink, mkdir, ea_set, set_inode_field, punch, fallocate), checked by
// e2fsck (the reference must agree that the image is clean), loaded onto the simulated device and
// read with ext4.Read + ReadDir/Stat/Open/ReadLink/GetXattr. What the library reports is compared
// with what was put in.
//
// There is no fault, schedule or clock in this property: it is decided by seeded search over
// configurations and inputs, with the simulated device providing the read accounting.
type c20 struct{}

func init() { core.Register(c20{}) }

func (c20) ID() string    { return "C20" }
func (c20) Level() string { return "exploration" }
func (c20) Rule() string {
	return "one evaluation = one image built by mke2fs 1.47.0 (-d tree) with a seeded option set (block size 1k/2k/4k, inode size 128/256, ext4/ext3/ext2 style and ext4 without extents, 64bit, flex_bg, metadata_csum or uninit_bg, dir_index, huge_file, sparse_super2, journal; a minority with meta_bg, bigalloc, inline_data or ea_inode) and a seeded tree (directories of 0..5000 entries, sparse files of 3..1400 extents, holes, fast/slow symlinks, hard links, fifos, xattrs in inode and in a block, modes, 16/32-bit owners, times), optionally modified by debugfs -w, accepted by e2fsck -fn, read back completely through the library on the simulated device; distinct = distinct (option set, tree); non-trivial = the image holds at least one entry beyond lost+found"
}
func (c20) Assumptions() []string {
	return []string{
		"mke2fs -d stores 32-bit seconds only; times outside 1901..2038 and nanoseconds are put in with debugfs set_inode_field (mtime + mtime_extra) on 256-byte inodes",
		"e2fsck -fn must accept the image before the library is judged (otherwise the run is counted as reference-unclean and not judged)",
		"a refusal by ext4.Read is accepted for every option set except the distribution default of mke2fs -t ext4 (with any of the three block sizes); on images using extent-less files, meta_bg, bigalloc, inline_data or ea_inode an error on an affected call is accepted, wrong data never",
		"input- and configuration-driven: no fault, schedule or clock dimension exists for this property",
	}
}
func (c20) Components() map[string][]string {
	return map[string][]string{
		"real": {"filesystem/ext4 Read, ReadDir, Stat, Open/Read, ReadLink, GetXattr (superblock, group descriptors, inodes, extent tree, linear and hashed directories, xattrs)"},
		"stub": {"block device (SimDisk)", "image producer: /usr/sbin/mke2fs, /usr/sbin/debugfs (reference tools, independent implementation)"},
	}
}
func (c20) ProbeNames() []string {
	return []string{"opened", "refused", "mke2fs-refused", "reference-unclean", "bs-1024", "bs-2048", "bs-4096", "isz-128", "isz-256",
		"style-ext4", "style-ext3", "style-ext2", "style-ext4-noextent", "f-64bit", "f-flex_bg", "f-metadata_csum", "f-uninit_bg", "f-dir_index", "f-huge_file", "f-sparse_super2", "f-has_journal",
		"exotic", "htree-dir", "htree-depth2", "extent-depth1", "extent-depth2", "hole", "slow-symlink", "fast-symlink", "xattr-ibody", "xattr-block", "hardlink", "fifo", "debugfs-ops", "punched", "unwritten-extent", "beyond-4GiB", "time-extra", "uid-over-16bit", "error-on-unsupported"}
}
func (c20) Budget(tier string) (int, int, int) {
	if tier == "thorough" {
		return 900, 1 << 30, 600
	}
	return 50, 1 << 30, 240
}

var c20Features = []string{"64bit", "flex_bg", "dir_index", "huge_file", "sparse_super2", "has_journal"}

func c20Name(r *core.Rng, i int, kind string) string {
	n := fmt.Sprintf("e%05d", i)
	switch kind {
	case "long":
		n += "-" + strings.Repeat(string(rune('a'+i%26)), int(r.Range(1, 48)))
	case "xlong":
		// about 160 bytes per directory record: 9000 of them fill some 350 leaf blocks of 4 KiB
		n += "-" + strings.Repeat(string(rune('a'+i%26)), int(r.Range(110, 190)))
	}
	return n
}

func pack32(a, b uint32) int64 { return int64(uint64(a)<<32 | uint64(b)) }

func (c20) Gen(r *core.Rng, tier string, idx int) *core.Trace {
	t := &core.Trace{Cfg: map[string]int64{}, CfgS: map[string]string{}}
	t.Cfg["tag"] = int64(r.U64() >> 2)
	t.Cfg["bs"] = core.PickOf[int64](r, 1024, 1024, 2048, 4096, 4096)
	t.Cfg["isz"] = core.PickOf[int64](r, 128, 256, 256)
	style := []string{"ext4", "ext3", "ext2", "ext4-noextent"}[r.PickW(80, 7, 6, 7)]
	t.CfgS["style"] = style
	deflt := r.Chance(15) // the distribution default of -t ext4: no -O at all
	t.Cfg["default"] = 0
	if deflt && style == "ext4" {
		t.Cfg["default"] = 1
		t.Cfg["isz"] = 256
	}
	for _, f := range c20Features {
		t.Cfg["f_"+f] = int64(r.Intn(2))
	}
	t.Cfg["csum"] = int64(r.PickW(12, 76, 12)) // none, metadata_csum, uninit_bg (the library refuses volumes without metadata_csum: keep those a minority)
	if r.Chance(12) && t.I("default") == 0 {
		t.CfgS["exotic"] = core.PickOf(r, "meta_bg", "bigalloc", "inline_data", "ea_inode")
	}
	t.Cfg["start"] = core.PickOf[int64](r, 0, 0, 1<<20, 5<<30)
	// mke2fs -d writes linear directories; e2fsck -fD rebuilds them hash-indexed (where dir_index is on)
	t.Cfg["reindex"] = int64(r.PickW(35, 65))
	uids := []uint32{0, 1, 1000, 65534, 65535, 65536, 100000, 1<<31 - 1, 1<<32 - 2}
	modes := []int64{0o644, 0o600, 0o755, 0o777, 0o000, 0o444, 0o4755, 0o2755, 0o1777, 0o7777, 0o111}
	times32 := []int64{1700000000, 1, 0, -1, -86400 * 365 * 20, 2147483647, -2147483648, 946684800}
	meta := func(o *core.Op) {
		o.A = modes[r.Intn(len(modes))]
		o.B = pack32(uids[r.Intn(len(uids))], uids[r.Intn(len(uids))])
		o.C = times32[r.Intn(len(times32))]
	}
	var total int64
	var files, dirs []string
	add := func(o core.Op) { t.Ops = append(t.Ops, o) }
	nd := r.Intn(4)
	for i := 0; i < nd; i++ {
		p := fmt.Sprintf("d%d", i)
		if i > 0 && r.Chance(40) {
			p = dirs[r.Intn(len(dirs))] + "/" + p
		}
		o := core.Op{K: "dir", P: p}
		meta(&o)
		o.A |= 0o700
		add(o)
		dirs = append(dirs, p)
	}
	where := func(name string) string {
		if len(dirs) > 0 && r.Chance(50) {
			return dirs[r.Intn(len(dirs))] + "/" + name
		}
		return name
	}
	nf := 1 + r.Intn(6)
	for i := 0; i < nf; i++ {
		bs := t.I("bs")
		sz := core.PickOf[int64](r, 0, 1, 59, 60, 61, bs-1, bs, bs+1, 12*bs, 12*bs+1, r.Range(0, 200000), r.Range(0, 3<<20))
		o := core.Op{K: "file", P: where(fmt.Sprintf("f%02d.bin", i)), D: sz}
		meta(&o)
		add(o)
		files = append(files, o.P)
		total += sz
	}
	// sparse files: one extent per run, so the extent tree needs leaf blocks (>4) and interior nodes (>4 x 84 for 1 KiB blocks, >4 x 340 for 4 KiB)
	nfrag := []int64{0, 3, 5, 90, 400, 1400, 4, 2, 300, 1200}[r.PickW(18, 10, 15, 15, 12, 8, 10, 4, 4, 4)] // (4: the extent node in the inode exactly full; 300 / 1200: four leaf blocks below it with 1 KiB / 4 KiB blocks)
	if tier == "quick" && nfrag > 400 {
		nfrag = 400
	}
	if nfrag > 0 {
		o := core.Op{K: "sparse", P: where("sparse.bin"), D: nfrag, S: fmt.Sprintf("stride=%d,run=%d,tail=%d", core.PickOf[int64](r, 8192, 12288, 65536), core.PickOf[int64](r, 4096, 4096, 5000, 1), core.PickOf[int64](r, 0, 1, 4096, 100000))}
		meta(&o)
		add(o)
		files = append(files, o.P)
		total += nfrag * 8192
	}
	if r.Chance(25) {
		// one large hole (file size beyond 4 GiB in a quarter of them: size_high, 32-bit logical block numbers)
		o := core.Op{K: "sparse", P: where("hole.bin"), D: 2, S: fmt.Sprintf("stride=%d,run=4096,tail=%d", core.PickOf[int64](r, 1<<20, 64<<20, 5<<30), core.PickOf[int64](r, 0, 7))}
		meta(&o)
		add(o)
		files = append(files, o.P)
	}
	nbig := []int64{0, 40, 300, 1500, 5000}[r.PickW(25, 25, 25, 17, 8)]
	if tier == "quick" && nbig > 3500 {
		nbig = 3500
	}
	if t.Cfg["bs"] == 4096 && tier == "thorough" && r.Chance(8) {
		// more than 255 leaf blocks below the root of the hash tree of a 4 KiB-block directory
		nbig = 9000
	}
	if nbig > 0 {
		o := core.Op{K: "bigdir", P: where("big"), D: nbig, S: core.PickOf(r, "short", "long", "long")}
		if nbig == 9000 {
			// (an expensive tree: spend it on an option set the library opens)
			o.S = "xlong"
			t.Cfg["reindex"] = 1
			t.Cfg["f_dir_index"] = 1
			t.Cfg["csum"] = 1
			t.CfgS["style"] = "ext4"
			delete(t.CfgS, "exotic")
		}
		meta(&o)
		o.A |= 0o700
		add(o)
		total += nbig * t.Cfg["bs"]
	}
	for i := 0; i < r.Intn(4); i++ {
		ll := core.PickOf[int64](r, 1, 7, 59, 60, 61, 200, 1000, t.I("bs")-1, 4095)
		tgt := strings.Repeat("t", int(ll))
		if r.Bool() && ll > 1 {
			tgt = "/" + tgt[1:]
		}
		o := core.Op{K: "link", P: where(fmt.Sprintf("link%d", i)), S: tgt}
		meta(&o)
		add(o)
	}
	if len(files) > 0 && r.Chance(30) {
		add(core.Op{K: "hard", P: where("hardlink"), S: files[r.Intn(len(files))]})
	}
	if r.Chance(20) {
		o := core.Op{K: "fifo", P: where("fifo")}
		meta(&o)
		add(o)
	}
	targets := append(append([]string{}, files...), dirs...)
	if len(targets) > 0 {
		for i := 0; i < r.Intn(5); i++ {
			add(core.Op{K: "xattr", P: targets[r.Intn(len(targets))], S: fmt.Sprintf("user.x%d%s", i, strings.Repeat("n", r.Intn(30))), D: core.PickOf[int64](r, 0, 1, 2, 30, 90, 200, 700, 900)})
		}
	}
	// modifications by debugfs -w after mke2fs
	if r.Chance(50) && len(files) > 0 {
		for i := 0; i < 1+r.Intn(5); i++ {
			f := files[r.Intn(len(files))]
			switch r.PickW(15, 15, 10, 10, 15, 20, 10, 10) {
			case 0:
				add(core.Op{K: "dbg-rm", P: f})
			case 1:
				add(core.Op{K: "dbg-write", P: where(fmt.Sprintf("dw%d.bin", i)), D: core.PickOf[int64](r, 0, 1, 1000, 70000)})
			case 2:
				add(core.Op{K: "dbg-symlink", P: where(fmt.Sprintf("dl%d", i)), S: strings.Repeat("s", int(core.PickOf[int64](r, 5, 59, 60, 300)))})
			case 3:
				add(core.Op{K: "dbg-mkdir", P: where(fmt.Sprintf("dd%d", i))})
			case 4:
				add(core.Op{K: "dbg-ea", P: f, S: fmt.Sprintf("user.d%d", i), D: core.PickOf[int64](r, 1, 40, 300, 800)})
			case 5:
				// times beyond 32 bits and nanoseconds; owners through the high halves
				switch r.Intn(3) {
				case 0:
					add(core.Op{K: "dbg-sif", P: f, S: "mtime", D: core.PickOf[int64](r, 2147483648, 4102444800, 15032385535, -2147483649, -86400*365*100, 1700000000), A: r.Range(0, 999999999)})
				case 1:
					add(core.Op{K: "dbg-sif", P: f, S: "uid", D: int64(uids[r.Intn(len(uids))])})
				case 2:
					add(core.Op{K: "dbg-sif", P: f, S: "gid", D: int64(uids[r.Intn(len(uids))])})
				}
			case 6:
				add(core.Op{K: "dbg-punch", P: f, A: r.Range(0, 8), D: r.Range(0, 8)})
			case 7:
				add(core.Op{K: "dbg-falloc", P: f, A: r.Range(0, 4), D: r.Range(1, 40)})
			}
		}
		if nbig > 0 {
			// delete entries out of the large directory: leaves holes and merged records in its blocks
			for i := 0; i < 1+r.Intn(20); i++ {
				add(core.Op{K: "dbg-rm-big", D: r.Range(0, nbig-1)})
			}
		}
	}
	// a volume of more than 4 GiB whose first 4 GiB are taken by one preallocated file: everything debugfs creates
	// afterwards (directories, a slow symlink, files) lies beyond 4 GiB from the start of the file system
	if nbig != 9000 && r.Chance(map[string]int{"quick": 4, "thorough": 8}[tier]) {
		t.Cfg["far"] = 1
		t.Cfg["bs"] = 4096
		t.Cfg["csum"] = 1
		t.CfgS["style"] = "ext4"
		style = "ext4"
		delete(t.CfgS, "exotic")
		o := core.Op{K: "file", P: "farpad.bin", D: 100}
		meta(&o)
		add(o)
		add(core.Op{K: "dbg-falloc", P: "farpad.bin", A: 1, D: 1 << 20, C: 1})
		add(core.Op{K: "dbg-mkdir", P: "fardir"})
		add(core.Op{K: "dbg-write", P: "fardir/fa.bin", D: core.PickOf[int64](r, 1, 5000, 70000)})
		add(core.Op{K: "dbg-symlink", P: "fardir/fl", S: strings.Repeat("s", int(core.PickOf[int64](r, 60, 300, 4000)))})
		add(core.Op{K: "dbg-mkdir", P: "fardir/sub"})
		add(core.Op{K: "dbg-write", P: "fardir/sub/fb.bin", D: 100})
		add(core.Op{K: "dbg-write", P: "farfile.bin", D: core.PickOf[int64](r, 4096, 70000, 300000)})
	}
	sz := 2*total + 12<<20
	if t.Cfg["f_has_journal"] == 1 || style == "ext3" {
		sz += 8 << 20
	}
	sz = (sz + 1<<20 - 1) &^ (1<<20 - 1)
	t.Cfg["size"] = sz
	return t
}

// c20Node is what was put in for one path.
type c20Node struct {
	kind      byte // 'd', 'f', 'l', 'p' (fifo)
	mode      uint32
	uid, gid  uint32
	mtime     time.Time
	metaKnown bool
	nsKnown   bool
	size      int64
	runs      [][2]int64 // (offset, length) of pattern data; the rest reads as zero
	tag       uint64
	link      string
	xattrs    map[string][]byte
	bigdir    bool
	fromDbg   bool
	affected  bool // touched by punch/falloc (unwritten extents, holes made by debugfs)
}

// expectAt fills p with the expected content at offset off.
func (n *c20Node) expectAt(p []byte, off int64) {
	for i := range p {
		p[i] = 0
	}
	for _, r := range n.runs {
		a, b := r[0], r[0]+r[1]
		if b <= off || a >= off+int64(len(p)) {
			continue
		}
		for x := max64(a, off); x < min64(b, off+int64(len(p))); x++ {
			p[x-off] = c20Byte(n.tag, x)
		}
	}
}

func c20Byte(tag uint64, off int64) byte {
	// position-dependent, so that a block delivered at the wrong offset is seen
	x := tag ^ uint64(off)*0x9e3779b97f4a7c15
	x ^= x >> 29
	x *= 0xbf58476d1ce4e5b9
	x ^= x >> 32
	return byte(x) | 1 // never zero: a hole read where data belongs is seen too
}

func max64(a, b int64) int64 {
	if a > b {
		return a
	}
	return b
}
func min64(a, b int64) int64 {
	if a < b {
		return a
	}
	return b
}

func parseKV(s string) map[string]int64 {
	m := map[string]int64{}
	for _, kv := range strings.Split(s, ",") {
		var k string
		var v int64
		if i := strings.IndexByte(kv, '='); i > 0 {
			k = kv[:i]
			fmt.Sscan(kv[i+1:], &v)
			m[k] = v
		}
	}
	return m
}

func (p c20) Exec(t *core.Trace) *core.Result {
	res := core.NewResult()
	res.Evals = 1
	bs, isz := t.I("bs"), t.I("isz")
	if bs != 1024 && bs != 2048 && bs != 4096 {
		bs = 4096
	}
	if isz != 128 && isz != 256 {
		isz = 256
	}
	style := t.Sg("style")
	if style != "ext3" && style != "ext2" && style != "ext4-noextent" {
		style = "ext4"
	}
	exotic := t.Sg("exotic")
	deflt := t.I("default") == 1 && style == "ext4"
	if deflt {
		exotic = ""
	}
	size := t.I("size")
	if size < 8<<20 {
		size = 8 << 20
	}
	if size > 1<<30 {
		size = 1 << 30
	}
	far := t.I("far") == 1 && style == "ext4" && exotic == ""
	if far {
		bs = 4096
		size = 4<<30 + 400<<20 + int64(uint64(t.I("tag"))%1024)<<20
	}
	start := t.I("start")
	if start < 0 || start > 8<<30 {
		start = 0
	}
	start &^= 511
	tag := uint64(t.I("tag"))

	// ---------------------------------------------------------------- model + host tree
	nodes := map[string]*c20Node{"": {kind: 'd'}}
	var order []string
	dir := newScratchSub("c20-tree")
	defer os.RemoveAll(dir)
	ensureParents := func(pth string) {
		d := path.Dir(pth)
		for d != "." && d != "/" && d != "" {
			if nodes[d] == nil {
				nodes[d] = &c20Node{kind: 'd'}
				order = append(order, d)
			}
			d = path.Dir(d)
		}
		_ = os.MkdirAll(filepath.Join(dir, filepath.FromSlash(path.Dir(pth))), 0o755)
	}
	setMeta := func(n *c20Node, o core.Op) {
		n.mode = uint32(o.A) & 0o7777
		n.uid, n.gid = uint32(uint64(o.B)>>32), uint32(uint64(o.B))
		n.mtime = time.Unix(o.C, 0)
		if o.C < -2147483648 || o.C > 2147483647 {
			n.mtime = time.Unix(1700000000, 0)
		}
		n.metaKnown = true
	}
	usable := func(pth string) bool {
		if pth == "" || strings.HasPrefix(pth, "/") || strings.Contains(pth, "//") || pth == "lost+found" || strings.HasPrefix(pth, "lost+found/") {
			return false
		}
		if nodes[pth] != nil {
			return false
		}
		// no parent may be a non-directory
		for d := path.Dir(pth); d != "." && d != ""; d = path.Dir(d) {
			if n := nodes[d]; n != nil && n.kind != 'd' {
				return false
			}
		}
		return true
	}
	bigNames := map[string][]string{}
	var dbg []core.Op
	for _, o := range t.Ops {
		hp := filepath.Join(dir, filepath.FromSlash(o.P))
		switch o.K {
		case "dir":
			if !usable(o.P) {
				continue
			}
			ensureParents(o.P)
			n := &c20Node{kind: 'd'}
			setMeta(n, o)
			n.mode |= 0o700
			nodes[o.P] = n
			order = append(order, o.P)
			must(os.MkdirAll(hp, 0o755))
		case "file":
			if !usable(o.P) || o.D < 0 || o.D > 64<<20 {
				continue
			}
			ensureParents(o.P)
			n := &c20Node{kind: 'f', size: o.D, tag: core.HashStr(o.P) ^ tag}
			if o.D > 0 {
				n.runs = [][2]int64{{0, o.D}}
			}
			setMeta(n, o)
			nodes[o.P] = n
			order = append(order, o.P)
			b := make([]byte, o.D)
			n.expectAt(b, 0)
			must(os.WriteFile(hp, b, 0o644))
		case "sparse":
			kv := parseKV(o.S)
			stride, run, tail := kv["stride"], kv["run"], kv["tail"]
			if !usable(o.P) || o.D < 1 || o.D > 4000 || stride < 4096 || run < 1 || run > stride || tail < 0 {
				continue
			}
			ensureParents(o.P)
			n := &c20Node{kind: 'f', tag: core.HashStr(o.P) ^ tag}
			f, err := os.Create(hp)
			must(err)
			for i := int64(0); i < o.D; i++ {
				n.runs = append(n.runs, [2]int64{i * stride, run})
				b := make([]byte, run)
				for j := range b {
					b[j] = c20Byte(n.tag, i*stride+int64(j))
				}
				_, err = f.WriteAt(b, i*stride)
				must(err)
			}
			n.size = (o.D-1)*stride + run + tail
			must(f.Truncate(n.size))
			f.Close()
			setMeta(n, o)
			nodes[o.P] = n
			order = append(order, o.P)
		case "bigdir":
			if !usable(o.P) || o.D < 1 || o.D > 30000 {
				continue
			}
			ensureParents(o.P)
			n := &c20Node{kind: 'd', bigdir: true}
			setMeta(n, o)
			n.mode |= 0o700
			nodes[o.P] = n
			order = append(order, o.P)
			must(os.MkdirAll(hp, 0o755))
			nr := core.NewRng(core.HashStr(o.P) ^ tag)
			for i := 0; i < int(o.D); i++ {
				name := c20Name(nr, i, o.S)
				cp := o.P + "/" + name
				cn := &c20Node{kind: 'f', tag: core.HashStr(cp) ^ tag}
				dirEvery := 7
				if o.D >= 5000 {
					dirEvery = 97 // (every subdirectory costs a full parse of its large parent when it is listed)
				}
				if i%dirEvery == 0 {
					cn.kind = 'd'
					must(os.Mkdir(filepath.Join(hp, name), 0o755))
				} else {
					cn.size = int64(i % 23)
					if cn.size > 0 {
						cn.runs = [][2]int64{{0, cn.size}}
					}
					b := make([]byte, cn.size)
					cn.expectAt(b, 0)
					must(os.WriteFile(filepath.Join(hp, name), b, 0o644))
				}
				nodes[cp] = cn
				order = append(order, cp)
				bigNames[o.P] = append(bigNames[o.P], cp)
			}
		case "link":
			if !usable(o.P) || o.S == "" || len(o.S) > 4095 || int64(len(o.S)) >= bs {
				continue
			}
			ensureParents(o.P)
			n := &c20Node{kind: 'l', link: o.S, size: int64(len(o.S))}
			setMeta(n, o)
			n.mode = 0o777
			nodes[o.P] = n
			order = append(order, o.P)
			must(os.Symlink(o.S, hp))
		case "hard":
			src := nodes[o.S]
			if !usable(o.P) || src == nil || src.kind != 'f' {
				continue
			}
			ensureParents(o.P)
			must(os.Link(filepath.Join(dir, filepath.FromSlash(o.S)), hp))
			nodes[o.P] = src // the same inode
			order = append(order, o.P)
			res.Probe("hardlink")
		case "fifo":
			if !usable(o.P) {
				continue
			}
			ensureParents(o.P)
			n := &c20Node{kind: 'p'}
			setMeta(n, o)
			nodes[o.P] = n
			order = append(order, o.P)
			must(unix.Mkfifo(hp, 0o644))
			res.Probe("fifo")
		case "xattr":
			n := nodes[o.P]
			if n == nil || (n.kind != 'f' && n.kind != 'd') || o.D < 0 || o.D > 3000 || !strings.HasPrefix(o.S, "user.") || len(o.S) > 200 {
				continue
			}
			if n.xattrs == nil {
				n.xattrs = map[string][]byte{}
			}
			v := core.PatternBytes(core.HashStr(o.S)^tag, o.D)
			if err := unix.Lsetxattr(hp, o.S, v, 0); err != nil {
				panic(fmt.Sprintf("host xattr: %v", err))
			}
			n.xattrs[o.S] = v
		default:
			if strings.HasPrefix(o.K, "dbg-") {
				dbg = append(dbg, o)
			}
		}
	}
	// host metadata, children before parents
	for i := len(order) - 1; i >= 0; i-- {
		pth := order[i]
		n := nodes[pth]
		if !n.metaKnown {
			continue
		}
		hp := filepath.Join(dir, filepath.FromSlash(pth))
		must(os.Lchown(hp, int(n.uid), int(n.gid)))
		if n.kind != 'l' {
			must(os.Chmod(hp, modeFromBits(n.mode)))
		}
		setHostMtime(hp, n.mtime)
	}
	// directories whose mtime the harness did not set get the mke2fs run time: pin it for determinism only
	for pth, n := range nodes {
		if n.kind == 'd' && !n.metaKnown {
			setHostMtime(filepath.Join(dir, filepath.FromSlash(pth)), time.Unix(1700000000, 0))
		}
	}

	// ---------------------------------------------------------------- mke2fs
	img := filepath.Join(scratch(), fmt.Sprintf("c20-%d.img", os.Getpid()))
	defer os.Remove(img)
	os.Remove(img)
	args := []string{"-q", "-F", "-b", fmt.Sprint(bs), "-d", dir, "-N", fmt.Sprint(len(nodes) + 600), "-E", "root_owner=0:0,lazy_itable_init=0,lazy_journal_init=0", "-L", "c20"}
	var feats []string
	cfgClass := style
	switch style {
	case "ext4":
		args = append(args, "-t", "ext4")
		if deflt {
			cfgClass = "ext4-default"
			res.Probe("f-64bit")
			res.Probe("f-flex_bg")
			res.Probe("f-metadata_csum")
			res.Probe("f-huge_file")
			res.Probe("f-has_journal")
			res.Probe("f-dir_index")
		}
	case "ext4-noextent":
		args = append(args, "-t", "ext4")
	case "ext3":
		args = append(args, "-t", "ext3")
	case "ext2":
		args = append(args, "-t", "ext2")
	}
	if !deflt {
		args = append(args, "-I", fmt.Sprint(isz))
		if style == "ext4" || style == "ext4-noextent" {
			for _, f := range c20Features {
				if t.I("f_"+f) == 1 {
					feats = append(feats, f)
					res.Probe("f-" + f)
				} else {
					feats = append(feats, "^"+f)
				}
			}
			switch t.I("csum") {
			case 1:
				feats = append(feats, "metadata_csum")
				res.Probe("f-metadata_csum")
			case 2:
				feats = append(feats, "^metadata_csum", "uninit_bg")
				res.Probe("f-uninit_bg")
			default:
				feats = append(feats, "^metadata_csum", "^uninit_bg")
			}
			if style == "ext4-noextent" {
				feats = append(feats, "^extent", "^64bit", "^huge_file")
			}
		} else if t.I("f_dir_index") == 0 {
			feats = append(feats, "^dir_index")
		} else {
			res.Probe("f-dir_index")
		}
		switch exotic {
		case "meta_bg":
			feats = append(feats, "meta_bg", "^resize_inode")
		case "bigalloc":
			feats = append(feats, "bigalloc")
			args = append(args, "-C", fmt.Sprint(bs*16))
		case "inline_data":
			feats = append(feats, "inline_data")
		case "ea_inode":
			feats = append(feats, "ea_inode")
		default:
			exotic = ""
		}
		if exotic != "" {
			cfgClass += "+" + exotic
			res.Probe("exotic")
		}
		if len(feats) > 0 {
			args = append(args, "-O", strings.Join(feats, ","))
		}
	} else {
		isz = 256
	}
	res.Probe(fmt.Sprintf("bs-%d", bs))
	res.Probe(fmt.Sprintf("isz-%d", isz))
	res.Probe("style-" + style)
	args = append(args, img, fmt.Sprintf("%dk", size/1024))
	cmd := exec.Command("/usr/sbin/mke2fs", args...)
	cmd.Env = append(os.Environ(), "E2FSPROGS_FAKE_TIME=1700000000", "MKE2FS_CONFIG=/etc/mke2fs.conf")
	if out, err := cmd.CombinedOutput(); err != nil {
		res.Probe("mke2fs-refused")
		res.Sample = fmt.Sprintf("mke2fs refused %v: %s", args, clip(string(out), 200))
		return res
	}
	// (the state hash must not contain the scratch directory, whose name holds the process id)
	res.Hashes = append(res.Hashes, core.Mix(core.HashStr(strings.ReplaceAll(strings.Join(args[:len(args)-2], " "), dir, "TREE")), tag))

	// ---------------------------------------------------------------- debugfs -w
	extentless := style == "ext3" || style == "ext2" || style == "ext4-noextent"
	if len(dbg) > 0 {
		var script []string
		aux := newScratchSub("c20-aux")
		defer os.RemoveAll(aux)
		for i, o := range dbg {
			n := nodes[o.P]
			switch o.K {
			case "dbg-rm":
				if n == nil || n.kind != 'f' || nlinks(nodes, n) > 1 {
					continue
				}
				script = append(script, "rm /"+o.P)
				delete(nodes, o.P)
			case "dbg-rm-big":
				for bd, names := range bigNames {
					if int(o.D) < len(names) {
						cp := names[o.D]
						if cn := nodes[cp]; cn != nil && cn.kind == 'f' {
							script = append(script, "rm /"+cp)
							delete(nodes, cp)
						}
					}
					_ = bd
				}
			case "dbg-write":
				if !usable(o.P) || o.D < 0 || o.D > 1<<20 || nodes[path.Dir(o.P)] == nil && path.Dir(o.P) != "." {
					continue
				}
				nn := &c20Node{kind: 'f', size: o.D, tag: core.HashStr(o.P) ^ tag, fromDbg: true}
				if o.D > 0 {
					nn.runs = [][2]int64{{0, o.D}}
				}
				b := make([]byte, o.D)
				nn.expectAt(b, 0)
				hf := filepath.Join(aux, fmt.Sprintf("w%d", i))
				must(os.WriteFile(hf, b, 0o644))
				script = append(script, fmt.Sprintf("write %s /%s", hf, o.P))
				nodes[o.P] = nn
			case "dbg-symlink":
				if !usable(o.P) || o.S == "" || int64(len(o.S)) >= bs || nodes[path.Dir(o.P)] == nil && path.Dir(o.P) != "." {
					continue
				}
				script = append(script, fmt.Sprintf("symlink /%s %s", o.P, o.S))
				nodes[o.P] = &c20Node{kind: 'l', link: o.S, size: int64(len(o.S)), fromDbg: true}
			case "dbg-mkdir":
				if !usable(o.P) || nodes[path.Dir(o.P)] == nil && path.Dir(o.P) != "." {
					continue
				}
				script = append(script, "mkdir /"+o.P)
				nodes[o.P] = &c20Node{kind: 'd', fromDbg: true}
			case "dbg-ea":
				if n == nil || n.kind != 'f' || o.D < 1 || o.D > 3000 || !strings.HasPrefix(o.S, "user.") {
					continue
				}
				v := core.PatternBytes(core.HashStr(o.S)^tag, o.D)
				hf := filepath.Join(aux, fmt.Sprintf("ea%d", i))
				must(os.WriteFile(hf, v, 0o644))
				script = append(script, fmt.Sprintf("ea_set -f %s /%s %s", hf, o.P, o.S))
				if n.xattrs == nil {
					n.xattrs = map[string][]byte{}
				}
				n.xattrs[o.S] = v
			case "dbg-sif":
				if n == nil || n.kind != 'f' {
					continue
				}
				switch o.S {
				case "uid":
					script = append(script, fmt.Sprintf("sif /%s uid %d", o.P, uint32(o.D)))
					n.uid = uint32(o.D)
					n.metaKnown = true
				case "gid":
					script = append(script, fmt.Sprintf("sif /%s gid %d", o.P, uint32(o.D)))
					n.gid = uint32(o.D)
					n.metaKnown = true
				case "mtime":
					if isz < 256 {
						continue
					}
					secs, ns := o.D, o.A
					if secs < -2147483648 || secs > 15032385535 || ns < 0 || ns > 999999999 {
						continue
					}
					lo := uint32(secs)
					epoch := uint64(secs-int64(int32(lo))) >> 32 & 3
					script = append(script, fmt.Sprintf("sif /%s mtime 0x%x", o.P, lo), fmt.Sprintf("sif /%s mtime_extra 0x%x", o.P, uint64(ns)<<2|epoch))
					n.mtime = time.Unix(secs, ns)
					n.nsKnown = true
					n.metaKnown = true
					res.Probe("time-extra")
				}
			case "dbg-punch":
				// punch whole blocks [A, A+D]: they read as zeros afterwards
				if n == nil || n.kind != 'f' || extentless || o.A < 0 || o.D < 0 || n.size == 0 || nlinks(nodes, n) > 1 {
					continue
				}
				a, b := o.A*bs, (o.A+o.D+1)*bs
				script = append(script, fmt.Sprintf("punch /%s %d %d", o.P, o.A, o.A+o.D))
				n.runs = subtractRange(n.runs, a, b)
				n.affected = true
				res.Probe("punched")
			case "dbg-falloc":
				// unwritten (allocated, uninitialised) extents over blocks [A, A+D] and a size that covers them: they read as zeros
				if n == nil || n.kind != 'f' || extentless || o.A < 0 || o.D < 0 || nlinks(nodes, n) > 1 {
					continue
				}
				if o.C == 1 && !far {
					continue
				}
				script = append(script, fmt.Sprintf("fallocate /%s %d %d", o.P, o.A, o.A+o.D))
				if o.C == 1 {
					// (the size stays: blocks preallocated beyond the end of the file)
					res.Probe("beyond-4GiB")
				} else if ns := (o.A + o.D + 1) * bs; ns > n.size {
					n.size = ns
					script = append(script, fmt.Sprintf("sif /%s size %d", o.P, ns))
				}
				n.affected = true
				res.Probe("unwritten-extent")
			}
		}
		if len(script) > 0 {
			sf := filepath.Join(aux, "script")
			must(os.WriteFile(sf, []byte(strings.Join(script, "\n")+"\n"), 0o644))
			cmd := exec.Command("/usr/sbin/debugfs", "-w", "-f", sf, img)
			cmd.Env = append(os.Environ(), "E2FSPROGS_FAKE_TIME=1700000000")
			out, err := cmd.CombinedOutput()
			if err != nil {
				panic(fmt.Sprintf("debugfs failed: %v %s", err, out))
			}
			// debugfs -f echoes each command as "debugfs: <cmd>" and reports a failed command on a line of its own
			// without failing itself: the tree in the image is then not the modelled one and the run is not judged
			for _, ln := range strings.Split(string(out), "\n") {
				if ln = strings.TrimSpace(ln); ln != "" && !strings.HasPrefix(ln, "debugfs") && !strings.HasPrefix(ln, "Allocated inode:") {
					res.Probe("reference-unclean")
					res.Sample = "a debugfs command did not succeed: " + clip(ln, 200)
					return res
				}
			}
			res.Probe("debugfs-ops")
			res.Steps += int64(len(script))
		}
	}

	// ---------------------------------------------------------------- hash-indexed directories
	if t.I("reindex") == 1 {
		cmd := exec.Command("/usr/sbin/e2fsck", "-f", "-y", "-D", img)
		cmd.Env = append(os.Environ(), "E2FSPROGS_FAKE_TIME=1700000000")
		out, err := cmd.CombinedOutput()
		if ee, ok := err.(*exec.ExitError); err != nil && (!ok || ee.ExitCode() > 1) {
			res.Probe("reference-unclean")
			res.Sample = fmt.Sprintf("e2fsck -fyD failed (%v): %s", err, clip(string(out), 300))
			return res
		}
		for pth, n := range nodes {
			if n.bigdir {
				o, _ := exec.Command("/usr/sbin/debugfs", "-R", "htree_dump /"+pth, img).CombinedOutput()
				if i := strings.Index(string(o), "Indirect levels:"); i >= 0 {
					var lv int
					fmt.Sscan(string(o)[i+len("Indirect levels:"):], &lv)
					res.Probe("htree-dir")
					if lv >= 1 {
						res.Probe("htree-depth2")
					}
				}
			}
		}
	}
	// ---------------------------------------------------------------- the reference must accept its own image
	{
		cmd := exec.Command("/usr/sbin/e2fsck", "-f", "-n", img)
		if out, err := cmd.CombinedOutput(); err != nil {
			res.Probe("reference-unclean")
			res.Sample = fmt.Sprintf("e2fsck does not accept the reference image (%v): %s", err, clip(string(out), 300))
			return res
		}
	}
	// ---------------------------------------------------------------- reference's own extraction agrees with the model (harness self-check)
	if err := c20SelfCheck(img, nodes); err != nil {
		if exotic != "" {
			// e.g. mke2fs 1.47.0 -O inline_data drops the hole at the end of a sparse file: what is in the
			// image is then not what was put in, and the run cannot be judged
			res.Probe("reference-unclean")
			res.Sample = "reference extraction disagrees with the tree (exotic feature " + exotic + "): " + err.Error()
			return res
		}
		panic("C20 harness: reference extraction disagrees with the model: " + err.Error())
	}

	d := simdisk.New(start + size)
	if err := d.LoadFrom(img, start); err != nil {
		panic(err)
	}
	os.Remove(img)
	d.NoStats = false
	viol := func(clause, trig, detail string) *core.Result {
		res.V = &core.Violation{Clause: "C20." + clause, Trigger: trig + "[" + cfgClass + "]", Locus: "filesystem/ext4", Detail: detail + "\nmke2fs " + strings.Join(args[:len(args)-2], " "), OpIndex: -1}
		return res
	}
	tolerant := extentless || exotic != ""
	var fs *ext4.FileSystem
	var err error
	if pk, pv, loc, _ := core.Guard(func() { fs, err = ext4.Read(d, size, start, 512) }); pk {
		res.V = &core.Violation{Clause: "C20.panic", Trigger: "read:" + core.PanicClass(pv) + "[" + cfgClass + "]", Locus: loc, Detail: fmt.Sprint(pv), OpIndex: -1}
		return res
	}
	if err != nil {
		res.Probe("refused")
		if deflt {
			return viol("refused-default", "read", fmt.Sprintf("ext4.Read refuses an image made by mke2fs -t ext4 with the distribution defaults: %v", err))
		}
		res.Sample = "refused: " + err.Error()
		return res
	}
	res.Probe("opened")

	// ---------------------------------------------------------------- compare
	children := map[string][]string{}
	for pth := range nodes {
		if pth == "" {
			continue
		}
		par := path.Dir(pth)
		if par == "." {
			par = ""
		}
		children[par] = append(children[par], pth)
	}
	var paths []string
	for pth := range nodes {
		paths = append(paths, pth)
	}
	sort.Strings(paths)
	call := func(what string, f func()) *core.Result {
		if pk, pv, loc, _ := core.Guard(f); pk {
			res.V = &core.Violation{Clause: "C20.panic", Trigger: what + ":" + core.PanicClass(pv) + "[" + cfgClass + "]", Locus: loc, Detail: fmt.Sprintf("%v\nmke2fs %s", pv, strings.Join(args[:len(args)-2], " ")), OpIndex: -1}
			return res
		}
		return nil
	}
	// an error is acceptable only on images with a feature the library does not support
	failed := func(what, class, pth string, err error) *core.Result {
		if tolerant {
			res.Probe("error-on-unsupported")
			return nil
		}
		return viol("error", what+"("+class+")", fmt.Sprintf("%s(%q) fails on an image that only uses supported features: %v", what, pth, err))
	}
	buf := make([]byte, 1<<20)
	exp := make([]byte, 1<<20)
	for _, pth := range paths {
		n := nodes[pth]
		res.Steps++
		class := c20Class(n, bs, isz)
		// ---- listing
		if n.kind == 'd' {
			var ents []iofs.DirEntry
			if r := call("ReadDir", func() { ents, err = fs.ReadDir(vpath(pth)) }); r != nil {
				return r
			}
			if err != nil {
				if r := failed("ReadDir", class, pth, err); r != nil {
					return r
				}
				continue
			}
			got := map[string]bool{}
			for _, e := range ents {
				if e.Name() == "." || e.Name() == ".." || (pth == "" && e.Name() == "lost+found") {
					continue
				}
				k := "f"
				switch {
				case e.IsDir():
					k = "d"
				case e.Type()&os.ModeSymlink != 0:
					k = "l"
				case e.Type()&os.ModeNamedPipe != 0:
					k = "p"
				}
				if got[e.Name()+"|"+k] {
					return viol("listing", "dir("+class+")", fmt.Sprintf("ReadDir(%q) lists %q twice", pth, e.Name()))
				}
				got[e.Name()+"|"+k] = true
			}
			want := map[string]bool{}
			for _, c := range children[pth] {
				want[path.Base(c)+"|"+string(nodes[c].kind)] = true
			}
			if d := setDiff(want, got); d != "" {
				return viol("listing", "dir("+class+")", fmt.Sprintf("ReadDir(%q) (%d entries put in): %s", pth, len(want), d))
			}
		}
		if pth == "" {
			continue
		}
		// the library resolves every path by parsing each directory on the way in full, so the entries of a
		// large directory are all listed (above) but only a sample of them is looked at one by one
		if par := nodes[path.Dir(pth)]; par != nil && par.bigdir && len(children[path.Dir(pth)]) > 60 {
			if core.HashStr(pth)%uint64(len(children[path.Dir(pth)])/40) != 0 {
				continue
			}
		}
		// ---- attributes
		var fi iofs.FileInfo
		if r := call("Stat", func() { fi, err = fs.Stat(pth) }); r != nil {
			return r
		}
		if err != nil {
			if r := failed("Stat", class, pth, err); r != nil {
				return r
			}
			continue
		}
		gotKind := byte('f')
		switch {
		case fi.IsDir():
			gotKind = 'd'
		case fi.Mode()&os.ModeSymlink != 0:
			gotKind = 'l'
		case fi.Mode()&os.ModeNamedPipe != 0:
			gotKind = 'p'
		}
		if gotKind != n.kind {
			return viol("kind", string(n.kind)+"("+class+")", fmt.Sprintf("Stat(%q) reports kind %c (mode %v), put in as %c", pth, gotKind, fi.Mode(), n.kind))
		}
		if n.kind == 'f' && fi.Size() != n.size {
			return viol("size", "file("+class+")", fmt.Sprintf("Stat(%q).Size() = %d, put in %d", pth, fi.Size(), n.size))
		}
		if n.metaKnown {
			if got := bitsFromMode(fi.Mode()); got != n.mode && n.kind != 'l' {
				return viol("mode", fmt.Sprintf("mode(%s)", modeClass(n.mode)), fmt.Sprintf("Stat(%q) mode %04o (%v), put in %04o", pth, got, fi.Mode(), n.mode))
			}
			if u, g, ok := sysOwner(fi.Sys()); ok {
				if n.uid > 65535 || n.gid > 65535 {
					res.Probe("uid-over-16bit")
				}
				if u != n.uid || g != n.gid {
					return viol("owner", "owner("+ownerClass(n.uid, n.gid)+")", fmt.Sprintf("Stat(%q) owner %d:%d, put in %d:%d", pth, u, g, n.uid, n.gid))
				}
			}
			want := n.mtime
			got := fi.ModTime()
			if !n.nsKnown {
				got = got.Truncate(time.Second)
				if fi.ModTime().Nanosecond() != 0 && got.Unix() < 0 {
					got = time.Unix(fi.ModTime().Unix(), 0)
				}
			}
			if !got.Equal(want) {
				return viol("mtime", "mtime("+timeClass(want)+fmt.Sprintf(",isz%d)", isz), fmt.Sprintf("Stat(%q).ModTime() = %v, put in %v", pth, fi.ModTime().UTC(), want.UTC()))
			}
		}
		// ---- link target
		if n.kind == 'l' {
			if int64(len(n.link)) < 60 {
				res.Probe("fast-symlink")
			} else {
				res.Probe("slow-symlink")
			}
			var tgt string
			if r := call("ReadLink", func() { tgt, err = fs.ReadLink(pth) }); r != nil {
				return r
			}
			if err != nil {
				if r := failed("ReadLink", class, pth, err); r != nil {
					return r
				}
				continue
			}
			if tgt != n.link {
				return viol("link-target", "symlink("+class+")", fmt.Sprintf("ReadLink(%q) = %d bytes %q, put in %d bytes %q", pth, len(tgt), clip(tgt, 50), len(n.link), clip(n.link, 50)))
			}
		}
		// ---- xattrs
		if n.kind == 'f' || n.kind == 'd' {
			var xa map[string][]byte
			if r := call("GetXattr", func() { xa, err = fs.GetXattr(pth) }); r != nil {
				return r
			}
			if err != nil {
				if len(n.xattrs) > 0 || !tolerant {
					if r := failed("GetXattr", class, pth, err); r != nil {
						return r
					}
				}
			} else {
				tot := 0
				for k, v := range n.xattrs {
					tot += len(k) + len(v) + 16
					gv, ok := xa[k]
					if !ok {
						return viol("xattr", fmt.Sprintf("xattr(missing,len%s)", xaLenClass(len(v))), fmt.Sprintf("GetXattr(%q) lacks %q (%d bytes put in); reported: %v", pth, k, len(v), keysOf(xa)))
					}
					if !bytes.Equal(gv, v) {
						return viol("xattr", fmt.Sprintf("xattr(value,len%s)", xaLenClass(len(v))), fmt.Sprintf("GetXattr(%q)[%q] = %d bytes, put in %d bytes: %s", pth, k, len(gv), len(v), diffDesc(gv, v)))
					}
				}
				for k := range xa {
					if strings.HasPrefix(k, "user.") && n.xattrs[k] == nil {
						if _, ok := n.xattrs[k]; !ok {
							return viol("xattr", "xattr(extra)", fmt.Sprintf("GetXattr(%q) reports %q which was never set", pth, k))
						}
					}
				}
				if len(n.xattrs) > 0 {
					if isz >= 256 && tot < 90 {
						res.Probe("xattr-ibody")
					} else {
						res.Probe("xattr-block")
					}
				}
			}
		}
		// ---- content
		if n.kind == 'f' {
			if len(n.runs) > 4 {
				res.Probe("extent-depth1")
				per := (bs - 12) / 12
				if int64(len(n.runs)) > 4*per {
					res.Probe("extent-depth2")
				}
			}
			if c20HasHole(n) {
				res.Probe("hole")
			}
			var f iofs.File
			if r := call("Open", func() { f, err = fs.Open(pth) }); r != nil {
				return r
			}
			if err != nil {
				if r := failed("Open", class, pth, err); r != nil {
					return r
				}
				continue
			}
			var off int64
			var rerr error
			mism := ""
			if r := call("Read", func() {
				for {
					var k int
					k, rerr = io.ReadFull(f, buf)
					if k > 0 {
						if off+int64(k) > n.size {
							mism = fmt.Sprintf("delivers more than the %d bytes put in", n.size)
							return
						}
						// large holes: skip the comparison of all-zero expected chunks quickly but exactly
						n.expectAt(exp[:k], off)
						if !bytes.Equal(buf[:k], exp[:k]) {
							i := 0
							for buf[i] == exp[i] {
								i++
							}
							mism = fmt.Sprintf("byte %d is 0x%02x, put in 0x%02x (%s)", off+int64(i), buf[i], exp[i], c20Where(n, off+int64(i), bs))
							return
						}
						off += int64(k)
					}
					if rerr != nil {
						return
					}
				}
			}); r != nil {
				f.Close()
				return r
			}
			f.Close()
			if mism != "" {
				return viol("content", "file("+class+")", fmt.Sprintf("%q (%d bytes, %d data runs): %s", pth, n.size, len(n.runs), mism))
			}
			if rerr != io.EOF && rerr != io.ErrUnexpectedEOF {
				if r := failed("Read", class, pth, rerr); r != nil {
					return r
				}
				continue
			}
			if off != n.size {
				return viol("content", "file("+class+")", fmt.Sprintf("%q: read ends after %d bytes, %d put in", pth, off, n.size))
			}
		}
	}
	if d.BeyondEnd != nil {
		return viol("read-outside", "read", fmt.Sprintf("device read beyond the volume end at %d (+%d) from %s", d.BeyondEnd.Off, d.BeyondEnd.Len, d.BeyondEnd.Locus))
	}
	res.DevOps += d.St.Reads
	res.Sample = fmt.Sprintf("%s bs=%d isz=%d: %d entries compared", cfgClass, bs, isz, len(nodes)-1)
	return res
}

func must(err error) {
	if err != nil {
		panic(err)
	}
}

func nlinks(nodes map[string]*c20Node, n *c20Node) int {
	c := 0
	for _, x := range nodes {
		if x == n {
			c++
		}
	}
	return c
}

func subtractRange(runs [][2]int64, a, b int64) [][2]int64 {
	var out [][2]int64
	for _, r := range runs {
		s, e := r[0], r[0]+r[1]
		if e <= a || s >= b {
			out = append(out, r)
			continue
		}
		if s < a {
			out = append(out, [2]int64{s, a - s})
		}
		if e > b {
			out = append(out, [2]int64{b, e - b})
		}
	}
	return out
}

func c20HasHole(n *c20Node) bool {
	var covered int64
	for _, r := range n.runs {
		covered += r[1]
	}
	return n.size-covered >= 4096
}

func c20Where(n *c20Node, off, bs int64) string {
	for i, r := range n.runs {
		if off >= r[0] && off < r[0]+r[1] {
			return fmt.Sprintf("in data run %d of %d, logical block %d", i, len(n.runs), off/bs)
		}
	}
	return fmt.Sprintf("in a hole, logical block %d", off/bs)
}

// c20Class names the structural class of an entry for the violation signature.
func c20Class(n *c20Node, bs, isz int64) string {
	switch n.kind {
	case 'd':
		if n.bigdir {
			return "large"
		}
		return "small"
	case 'l':
		if int64(len(n.link)) < 60 {
			return "fast"
		}
		return "slow"
	case 'p':
		return "fifo"
	}
	per := (bs - 12) / 12
	switch {
	case n.affected:
		return "debugfs-punch/fallocate"
	case n.size >= 4<<30:
		return "over-4GiB"
	case int64(len(n.runs)) > 4*per:
		return "extents>4x" + fmt.Sprint(per)
	case len(n.runs) > 4:
		return "extents>4"
	case c20HasHole(n):
		return "hole"
	case n.size == 0:
		return "empty"
	case n.size < 60:
		return "tiny"
	}
	return "plain"
}

func modeFromBits(m uint32) os.FileMode {
	fm := os.FileMode(m & 0o777)
	if m&0o4000 != 0 {
		fm |= os.ModeSetuid
	}
	if m&0o2000 != 0 {
		fm |= os.ModeSetgid
	}
	if m&0o1000 != 0 {
		fm |= os.ModeSticky
	}
	return fm
}

func bitsFromMode(fm os.FileMode) uint32 {
	m := uint32(fm.Perm())
	if fm&os.ModeSetuid != 0 {
		m |= 0o4000
	}
	if fm&os.ModeSetgid != 0 {
		m |= 0o2000
	}
	if fm&os.ModeSticky != 0 {
		m |= 0o1000
	}
	return m
}

func modeClass(m uint32) string {
	if m&0o7000 != 0 {
		return "special-bits"
	}
	return "perm"
}

func ownerClass(u, g uint32) string {
	if u > 65535 || g > 65535 {
		return "over-16bit"
	}
	return "16bit"
}

func timeClass(t time.Time) string {
	switch s := t.Unix(); {
	case s < -2147483648:
		return "pre-1901"
	case s < 0:
		return "pre-1970"
	case s > 2147483647:
		return "post-2038"
	}
	if t.Nanosecond() != 0 {
		return "1970..2038+ns"
	}
	return "1970..2038"
}

func xaLenClass(n int) string {
	switch {
	case n == 0:
		return "0"
	case n < 64:
		return "<64"
	case n < 256:
		return "<256"
	}
	return ">=256"
}

func keysOf(m map[string][]byte) []string {
	var ks []string
	for k := range m {
		ks = append(ks, k)
	}
	sort.Strings(ks)
	return ks
}

func setDiff(want, got map[string]bool) string {
	var miss, extra []string
	for k := range want {
		if !got[k] {
			miss = append(miss, k)
		}
	}
	for k := range got {
		if !want[k] {
			extra = append(extra, k)
		}
	}
	if len(miss)+len(extra) == 0 {
		return ""
	}
	sort.Strings(miss)
	sort.Strings(extra)
	cl := func(xs []string) string {
		if len(xs) > 6 {
			return fmt.Sprintf("%v … (%d in all)", xs[:6], len(xs))
		}
		return fmt.Sprint(xs)
	}
	return fmt.Sprintf("missing %s, unexpected %s (name|kind)", cl(miss), cl(extra))
}

// c20SelfCheck extracts every regular file (up to 64 MiB) with debugfs and compares it with the model:
// a disagreement is a harness error (the model does not describe what the reference tools produced).
func c20SelfCheck(img string, nodes map[string]*c20Node) error {
	out := newScratchSub("c20-dump")
	defer os.RemoveAll(out)
	// one dump command per regular file; files with very large holes are left out (the extraction writes the zeros out)
	var script []string
	dumped := map[string]string{}
	i := 0
	for pth, n := range nodes {
		if n.kind != 'f' || n.size > 64<<20 {
			continue
		}
		// (of the files of a large directory a sample is enough here)
		if par := nodes[path.Dir(pth)]; par != nil && par.bigdir && core.HashStr(pth)%16 != 0 {
			continue
		}
		i++
		hf := filepath.Join(out, fmt.Sprintf("f%d", i))
		dumped[pth] = hf
		script = append(script, fmt.Sprintf("dump /%s %s", pth, hf))
	}
	if len(script) == 0 {
		return nil
	}
	sort.Strings(script)
	sf := filepath.Join(out, "script")
	if err := os.WriteFile(sf, []byte(strings.Join(script, "\n")+"\n"), 0o644); err != nil {
		return err
	}
	cmd := exec.Command("/usr/sbin/debugfs", "-f", sf, img)
	if b, err := cmd.CombinedOutput(); err != nil {
		return fmt.Errorf("debugfs dump: %v %s", err, b)
	}
	buf := make([]byte, 1<<20)
	exp := make([]byte, 1<<20)
	for pth, hp := range dumped {
		n := nodes[pth]
		f, err := os.Open(hp)
		if err != nil {
			return fmt.Errorf("%q: reference did not extract it: %v", pth, err)
		}
		st, _ := f.Stat()
		if st.Size() != n.size {
			f.Close()
			return fmt.Errorf("%q: reference extracts %d bytes, model has %d", pth, st.Size(), n.size)
		}
		var off int64
		for off < n.size {
			k, err := io.ReadFull(f, buf)
			if k > 0 {
				n.expectAt(exp[:k], off)
				if !bytes.Equal(buf[:k], exp[:k]) {
					f.Close()
					return fmt.Errorf("%q: reference content differs from the model in [%d,%d)", pth, off, off+int64(k))
				}
				off += int64(k)
			}
			if err != nil {
				break
			}
		}
		f.Close()
	}
	return nil
}
