package props

import (
	"fmt"
	"os"

	"dsim/core"
	"dsim/simdisk"

	"github.com/diskfs/go-diskfs/filesystem"
)

// C03 — Nothing is written outside the byte range a component was given.
//
// The simulated device sees every WriteAt. Each workload is run with the write guard armed to
// exactly the range the component was given (filesystem: [start,start+size); partition
// contents: the partition; tables: MBR entry area + signature, GPT headers and arrays as
// computed by the independent parser) on a device that is larger than the range, with noise in
// the guard bands whose hash is compared as well.
type c03 struct{}

func init() { core.Register(c03{}) }

func (c03) ID() string    { return "C03" }
func (c03) Level() string { return "exploration" }
func (c03) Rule() string {
	return "one evaluation = one seeded workload run under the device write guard: FAT12/16/32 histories biased to fill-until-refused and directory growth (volume sizes not a multiple of the cluster size, start in {0, 512, 1 MiB, 5 GiB}), ext4 histories, ISO9660/squashfs Finalize of seeded trees at start 0 / 1 MiB, WritePartitionContents/CopyPartitionRaw with short/exact/long streams, GPT/MBR table writes on blank/noise disks; a violation is any WriteAt touching a byte outside the given range or a changed guard-band hash; distinct = distinct (workload, geometry, operation-class sequence); non-trivial = at least one accepted write"
}
func (c03) Assumptions() []string {
	return []string{
		"the range given to a filesystem is [start, start+size) as passed to Create; for tables it is computed from the disk geometry by the independent parser, not by the library",
		"the device is larger than the range (1 MiB noise tail) so that an overrun is observable instead of failing at the end of the device",
	}
}
func (c03) Components() map[string][]string {
	return map[string][]string{
		"real": {"filesystem/fat12,fat16,fat32,ext4,iso9660,squashfs", "partition/gpt, partition/mbr, disk.Disk", "sync.CopyPartitionRaw"},
		"stub": {"block device with write-range guard and guard-band hashes (SimDisk)", "caller streams", "host directory as ISO/squashfs workspace"},
	}
}
func (c03) ProbeNames() []string {
	return []string{"wl-fat", "wl-table", "wl-partio", "wl-ext4", "wl-iso", "wl-squashfs", "fill-reached-refusal"}
}
func (c03) Budget(tier string) (int, int, int) {
	if tier == "thorough" {
		return 1500, 1 << 30, 600
	}
	return 50, 1 << 30, 120
}

// (the runner hands run i to worker i mod 8 or i mod 16: with 16 entries every worker keeps to one or two
// workloads and a slow one cannot starve a fast one of its share of a time-bound batch)
var c03Workloads = []string{"fat", "fat", "fat", "table", "partio", "ext4", "iso", "squashfs", "fat", "fat", "ext4", "fatshrunk", "partio", "ext4", "iso", "squashfs"}

func (c03) Gen(r *core.Rng, tier string, idx int) *core.Trace {
	wl := c03Workloads[idx%len(c03Workloads)]
	var t *core.Trace
	switch wl {
	case "fat":
		t = genFatHistory(r, tier, idx)
		// bias to fill-until-refused and directory growth: put a fill early
		if r.Chance(70) && t.I("size") <= 40<<20 {
			t.Ops = append([]core.Op{{K: "fill", A: int64(r.Intn(3)), B: r.Range(1, 3)}}, t.Ops...)
		}
	case "table":
		t = genTableHistory(r, tier, idx)
	case "ext4":
		t = genExt4History(r, tier, idx, r.Bool()) // (half of them with the wide range of Create geometries: last groups, flex sizes, inode ratios)
		t.Cfg["size"] = t.Cfg["size"]/512*512 + 512*r.Range(0, 7) // not a multiple of the block size
	case "iso":
		t = c06{}.Gen(r, tier, idx)
		t.Cfg["start"] = core.PickOf[int64](r, 0, 2048, 1<<20, 5<<30)
	case "squashfs":
		t = c07{}.Gen(r, tier, idx)
		t.Cfg["start"] = core.PickOf[int64](r, 0, 4096, 1<<20, 5<<30)
		t.Cfg["bs"] = core.PickOf[int64](r, 4096, 8192, 131072)
		t.Cfg["comp"] = core.PickOf[int64](r, 0, 1, 3, 4)
	case "partio":
		t = c13{}.Gen(r, tier, idx)
	case "fatshrunk":
		// a FAT volume opened with a smaller range than its boot sector describes (an image copied into a smaller
		// partition): the range given is what counts
		t = &core.Trace{Cfg: map[string]int64{}, CfgS: map[string]string{}}
		t.Cfg["ftype"] = core.PickOf[int64](r, 12, 16, 32)
		t.Cfg["size"] = map[int64]int64{12: r.Range(2, 6) << 20, 16: r.Range(6, 12) << 20, 32: r.Range(4, 12) << 20}[t.Cfg["ftype"]]
		t.Cfg["start"] = core.PickOf[int64](r, 0, 1<<20, 5<<30)
		t.Cfg["given"] = r.Range(40, 95) // percent of the volume's size that the second open is given
		t.Cfg["per"] = core.PickOf[int64](r, 65536, 300000, 1<<20)
	}
	t.CfgS["wl"] = wl
	return t
}

func (c03) Exec(t *core.Trace) *core.Result {
	var res *core.Result
	switch t.Sg("wl") {
	case "table":
		res = execTableHistory(t, "C03")
	case "partio":
		res = execPartitionIO(t, "C03")
	case "ext4":
		res, _ = execExt4History(t, "C03")
	case "iso":
		res = execIsoBuild(t, "C03")
	case "squashfs":
		res = execSquashBuild(t, "C03")
	case "fatshrunk":
		res = execFatShrunk(t)
	default:
		res, _ = execFatHistory(t, "C03", false)
	}
	res.Probe("wl-" + t.Sg("wl"))
	return res
}

// execFatShrunk creates a FAT volume, opens it again with a smaller range than it was made with and writes files
// until it refuses: no write may leave the smaller range.
func execFatShrunk(t *core.Trace) *core.Result {
	res := core.NewResult()
	res.Evals = 1
	ft := int(t.I("ftype"))
	if ft != 12 && ft != 16 && ft != 32 {
		ft = 32
	}
	size, start := t.I("size"), t.I("start")
	if size < 1<<20 || size > 64<<20 {
		size = 8 << 20
	}
	if start < 0 {
		start = 0
	}
	pct := t.I("given")
	if pct < 10 || pct > 99 {
		pct = 75
	}
	given := size * pct / 100 / 4096 * 4096
	d := simdisk.New(start + size + 1<<20)
	d.FillNoise(start+given, size-given+1<<20, t.Seed^0x5151)
	if _, err := fatCreate(d, ft, size, start, 512, "SHRUNK", false); err != nil {
		res.Sample = "create refused: " + err.Error()
		return res
	}
	d.FillNoise(start+given, size-given+1<<20, t.Seed^0x5151) // (what lies behind the range given is somebody else's)
	fail := func(clause, trig, locus, detail string) *core.Result {
		res.V = &core.Violation{Clause: "C03." + clause, Trigger: fmt.Sprintf("fat%d:%s", ft, trig), Locus: locus, Detail: detail, OpIndex: -1}
		return res
	}
	var fs fatFS
	var err error
	if pk, pv, loc, _ := core.Guard(func() { fs, err = fatRead(d, ft, given, start, 512) }); pk {
		return fail("panic", "open(smaller-range):"+core.PanicClass(pv), loc, fmt.Sprint(pv))
	}
	if err != nil {
		res.Sample = "open with the smaller range refused: " + err.Error()
		res.Probe("shrunk-open-refused")
		return res
	}
	res.Probe("opened-with-smaller-range")
	d.SetGuard(simdisk.Extent{Off: start, Len: given})
	per := t.I("per")
	if per < 512 || per > 4<<20 {
		per = 65536
	}
	data := core.PatternBytes(t.Seed, per)
	for i := 0; i < 3000; i++ {
		var werr error
		if pk, pv, loc, _ := core.Guard(func() {
			var f filesystem.File
			f, werr = fs.OpenFile(fmt.Sprintf("/F%05d.DAT", i), os.O_CREATE|os.O_RDWR)
			if werr == nil {
				_, werr = f.Write(data)
				f.Close()
			}
		}); pk {
			if d.GuardHit == nil {
				return fail("panic", "fill(smaller-range):"+core.PanicClass(pv), loc, fmt.Sprint(pv))
			}
		}
		res.Steps++
		if g := d.GuardHit; g != nil {
			return fail("fs-write-outside-range", "fill(smaller-range)", g.Locus, fmt.Sprintf("FAT%d volume made with %d bytes was opened with the range [%d,+%d) and wrote [%d,+%d)", ft, size, start, given, g.Off, g.Len))
		}
		if werr != nil {
			res.Probe("fill-reached-refusal")
			break
		}
	}
	res.DevOps = d.St.Writes
	res.Hashes = append(res.Hashes, core.Mix(uint64(ft), uint64(size), uint64(pct)))
	return res
}
