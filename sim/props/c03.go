package props

import "dsim/core"

// C03 — Nothing is written outside the byte range a component was given.
//
// The simulated device sees every WriteAt. Each workload is run with the write guard armed to
// exactly the range the component was given (filesystem: [start,start+size); partition
// contents: the partition; tables: MBR entry area + signature, GPT headers and arrays as
// computed by the independent parser) on a device that is larger than the range, with noise in
// the guard bands whose hash is compared as well.
type c03 struct{}

func init() { core.Register(c03{}) }

func (c03) ID() string    { return "C03" }
func (c03) Level() string { return "exploration" }
func (c03) Rule() string {
	return "one evaluation = one seeded workload run under the device write guard: FAT12/16/32 histories biased to fill-until-refused and directory growth (volume sizes not a multiple of the cluster size, start in {0, 512, 1 MiB, 5 GiB}), ext4 histories, ISO9660/squashfs Finalize of seeded trees at start 0 / 1 MiB, WritePartitionContents/CopyPartitionRaw with short/exact/long streams, GPT/MBR table writes on blank/noise disks; a violation is any WriteAt touching a byte outside the given range or a changed guard-band hash; distinct = distinct (workload, geometry, operation-class sequence); non-trivial = at least one accepted write"
}
func (c03) Assumptions() []string {
	return []string{
		"the range given to a filesystem is [start, start+size) as passed to Create; for tables it is computed from the disk geometry by the independent parser, not by the library",
		"the device is larger than the range (1 MiB noise tail) so that an overrun is observable instead of failing at the end of the device",
	}
}
func (c03) Components() map[string][]string {
	return map[string][]string{
		"real": {"filesystem/fat12,fat16,fat32,ext4,iso9660,squashfs", "partition/gpt, partition/mbr, disk.Disk", "sync.CopyPartitionRaw"},
		"stub": {"block device with write-range guard and guard-band hashes (SimDisk)", "caller streams", "host directory as ISO/squashfs workspace"},
	}
}
func (c03) ProbeNames() []string {
	return []string{"wl-fat", "wl-table", "wl-partio", "wl-ext4", "wl-iso", "wl-squashfs", "fill-reached-refusal"}
}
func (c03) Budget(tier string) (int, int, int) {
	if tier == "thorough" {
		return 1500, 1 << 30, 600
	}
	return 50, 1 << 30, 120
}

var c03Workloads = []string{"fat", "fat", "fat", "table", "partio", "ext4", "iso", "squashfs"}

func (c03) Gen(r *core.Rng, tier string, idx int) *core.Trace {
	wl := c03Workloads[idx%len(c03Workloads)]
	var t *core.Trace
	switch wl {
	case "fat":
		t = genFatHistory(r, tier, idx)
		// bias to fill-until-refused and directory growth: put a fill early
		if r.Chance(70) && t.I("size") <= 40<<20 {
			t.Ops = append([]core.Op{{K: "fill", A: int64(r.Intn(3)), B: r.Range(1, 3)}}, t.Ops...)
		}
	case "table":
		t = genTableHistory(r, tier, idx)
	case "ext4":
		t = genExt4History(r, tier, idx, r.Bool()) // (half of them with the wide range of Create geometries: last groups, flex sizes, inode ratios)
		t.Cfg["size"] = t.Cfg["size"]/512*512 + 512*r.Range(0, 7) // not a multiple of the block size
	case "iso":
		t = c06{}.Gen(r, tier, idx)
		t.Cfg["start"] = core.PickOf[int64](r, 0, 2048, 1<<20, 5<<30)
	case "squashfs":
		t = c07{}.Gen(r, tier, idx)
		t.Cfg["start"] = core.PickOf[int64](r, 0, 4096, 1<<20, 5<<30)
		t.Cfg["bs"] = core.PickOf[int64](r, 4096, 8192, 131072)
		t.Cfg["comp"] = core.PickOf[int64](r, 0, 1, 3, 4)
	case "partio":
		t = c13{}.Gen(r, tier, idx)
	}
	t.CfgS["wl"] = wl
	return t
}

func (c03) Exec(t *core.Trace) *core.Result {
	var res *core.Result
	switch t.Sg("wl") {
	case "table":
		res = execTableHistory(t, "C03")
	case "partio":
		res = execPartitionIO(t, "C03")
	case "ext4":
		res, _ = execExt4History(t, "C03")
	case "iso":
		res = execIsoBuild(t, "C03")
	case "squashfs":
		res = execSquashBuild(t, "C03")
	default:
		res, _ = execFatHistory(t, "C03", false)
	}
	res.Probe("wl-" + t.Sg("wl"))
	return res
}
