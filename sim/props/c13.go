package props

import (
	"errors"
	"fmt"
	"io"
	"time"

	"dsim/core"
	"dsim/simdisk"

	"github.com/diskfs/go-diskfs/disk"
	"github.com/diskfs/go-diskfs/partition"
	dsync "github.com/diskfs/go-diskfs/sync"
)

// C13 — Partition contents are streamed to and from exactly the partition.
// The same executor serves the "writing partition contents changes only bytes of that
// partition" clause of C03.
type c13 struct{}

func init() { core.Register(c13{}) }

func (c13) ID() string    { return "C13" }
func (c13) Level() string { return "exploration" }
func (c13) Rule() string {
	return "one evaluation = one WritePartitionContents / ReadPartitionContents / CopyPartitionRaw call on a seeded GPT or MBR layout on a sparse simulated disk (partitions placed below and beyond 4 GiB, 512/4096 logical sectors, physical != logical) with a simulated caller stream (length shorter/equal/longer than the partition; pieces of 1 byte, odd sizes, (n,EOF) on the last piece, a (0,nil) read, error after k bytes); distinct = distinct (layout class, call, stream behaviour, length relation); non-trivial = call that moved at least one byte"
}
func (c13) Assumptions() []string {
	return []string{
		"source and target partitions of CopyPartitionRaw do not overlap",
		"CopyPartitionRaw runs its two goroutines unscheduled (io.Pipe rendezvous makes the outcome schedule-independent); the device serialises calls with a mutex; a 30 s watchdog decides 'never returns'",
		"writer errors in ReadPartitionContents are outside the statement and not injected",
	}
}
func (c13) Components() map[string][]string {
	return map[string][]string{
		"real": {"disk.Disk.WritePartitionContents/ReadPartitionContents", "partition/gpt and partition/mbr WriteContents/ReadContents", "sync.CopyPartitionRaw + verifyBlockCopy", "io.Pipe"},
		"stub": {"block device (SimDisk, sparse up to 64 GiB)", "caller io.Reader with legal awkward behaviour", "recording/comparing io.Writer"},
	}
}
func (c13) ProbeNames() []string {
	return []string{"start-beyond-4GiB", "size-beyond-4GiB", "physical-gt-logical", "short-reader", "long-reader", "exact-reader", "reader-error", "n-and-EOF", "zero-nil-read", "copyraw-equal", "copyraw-larger-target", "mbr", "gpt", "write-accepted", "write-refused"}
}
func (c13) Budget(tier string) (int, int, int) {
	if tier == "thorough" {
		return 600, 1 << 30, 300
	}
	return 40, 1 << 30, 120
}

func (c13) Gen(r *core.Rng, tier string, idx int) *core.Trace {
	t := &core.Trace{Cfg: map[string]int64{}, CfgS: map[string]string{}}
	lss := int64(512)
	if r.Chance(35) {
		lss = 4096
	}
	pss := lss
	if lss == 512 && r.Chance(40) {
		pss = 4096
	}
	t.Cfg["lss"], t.Cfg["pss"] = lss, pss
	t.Cfg["size"] = 64 << 30
	kind := int64(r.Intn(2)) // 0 gpt 1 mbr
	t.Cfg["kind"] = kind
	// up to 3 partitions: (start sector, sectors)
	n := 1 + r.Intn(3)
	big := r.Chance(2) || (tier == "thorough" && r.Chance(8)) // one partition of >= 4 GiB (streamed as zeros)
	if big {
		t.Cfg["pss"] = 4096 // 4 KiB chunks keep the 4 GiB stream at about a million device calls
	}
	// GPT partitions do not have to sit in slots 1..n: tables with gaps, where the number of a partition is not its
	// position in the list
	base, step := int64(0), int64(1)
	if kind == 0 && r.Chance(35) {
		base, step = core.PickOf[int64](r, 0, 1, 3, 100), core.PickOf[int64](r, 1, 2, 5)
	}
	slot := func(i int) int64 { return base + 1 + int64(i)*step }
	var cursor int64 = 64
	for i := 0; i < n; i++ {
		var start int64
		switch r.PickW(35, 25, 40) {
		case 0:
			start = cursor + r.Range(0, 2000)
		case 1: // just below the 4 GiB byte boundary so that the partition straddles it
			start = (4<<30)/lss - r.Range(1, 64)
			if start < cursor {
				start = cursor
			}
		case 2: // beyond 4 GiB (and beyond 2^32 bytes * small multiples)
			start = (r.Range(4, 40)<<30)/lss + r.Range(0, 5000)
			if start < cursor {
				start = cursor
			}
		}
		var sectors int64
		switch r.PickW(30, 40, 30) {
		case 0:
			sectors = r.Range(1, 3)
		case 1:
			sectors = r.Range(1, 64)
		case 2:
			sectors = r.Range(64, 600)
		}
		if big && i == 0 {
			sectors = (4<<30)/lss + r.Range(0, 3)
		}
		t.Ops = append(t.Ops, core.Op{K: "part", A: slot(i), B: start, C: sectors})
		cursor = start + sectors + r.Range(0, 50)
	}
	// calls
	m := 1 + r.Intn(5)
	for j := 0; j < m; j++ {
		pi := slot(r.Intn(n))
		switch r.PickW(50, 25, 25) {
		case 0:
			rel := int64(0)
			switch r.PickW(50, 25, 25) {
			case 1:
				rel = -r.Range(1, 700)
			case 2:
				rel = r.Range(1, 700)
			}
			if r.Chance(10) {
				rel = core.PickOf[int64](r, -1, 1, -lss, lss, -pss, pss)
			}
			mode := int64(r.Intn(6))
			t.Ops = append(t.Ops, core.Op{K: "write", A: pi, B: rel, C: mode, D: r.Range(0, 4000)})
		case 1:
			t.Ops = append(t.Ops, core.Op{K: "read", A: pi})
		case 2:
			to := slot(r.Intn(n))
			t.Ops = append(t.Ops, core.Op{K: "copyraw", A: pi, B: to})
		}
	}
	return t
}

// simReader is the caller-supplied stream: content is a deterministic function of the offset.
type simReader struct {
	total, pos int64
	mode       int // 0 full buffers, 1 single bytes, 2 odd pieces, 3 (n,EOF) on the last piece, 4 one (0,nil) read, 5 error after k bytes
	k          int64
	zeros      bool
	tag        uint64
	rng        *core.Rng
	didZero    bool
	res        *core.Result
}

var errInjected = errors.New("injected stream error")

func streamByte(tag uint64, off int64) byte {
	return byte(core.Mix(tag, uint64(off/8))>>(8*uint(off%8))) | 1
}

func (s *simReader) Read(p []byte) (int, error) {
	if len(p) == 0 {
		return 0, nil
	}
	if s.mode == 5 && s.pos >= s.k {
		s.res.Fault("stream-error")
		return 0, errInjected
	}
	if s.pos >= s.total {
		return 0, io.EOF
	}
	n := int64(len(p))
	switch s.mode {
	case 1:
		n = 1
	case 2:
		n = 1 + s.rng.Int63n(n)
	case 4:
		if !s.didZero && s.pos >= s.k%(s.total+1) {
			s.didZero = true
			s.res.Fault("stream-zero-nil")
			return 0, nil
		}
	case 5:
		if s.pos+n > s.k {
			n = s.k - s.pos
			if n == 0 {
				s.res.Fault("stream-error")
				return 0, errInjected
			}
		}
	}
	if s.pos+n > s.total {
		n = s.total - s.pos
	}
	if s.zeros {
		clear(p[:n])
	} else {
		for i := int64(0); i < n; i++ {
			p[i] = streamByte(s.tag, s.pos+i)
		}
	}
	s.pos += n
	if s.mode == 3 && s.pos == s.total {
		s.res.Fault("stream-n-and-EOF")
		return int(n), io.EOF
	}
	if s.mode == 1 || s.mode == 2 {
		s.res.Fault("stream-short-pieces")
	}
	return int(n), nil
}

// cmpWriter compares what ReadPartitionContents delivers with the device range, on the fly.
type cmpWriter struct {
	d        *simdisk.Disk
	off, pos int64
	limit    int64
	bad      int64 // first differing stream offset, -1 if none
}

func (w *cmpWriter) Write(p []byte) (int, error) {
	if w.bad < 0 && w.pos < w.limit {
		n := int64(len(p))
		if w.pos+n > w.limit {
			n = w.limit - w.pos
		}
		want := w.d.Peek(w.off+w.pos, n)
		for i := int64(0); i < n; i++ {
			if want[i] != p[i] {
				w.bad = w.pos + i
				break
			}
		}
	}
	w.pos += int64(len(p))
	return len(p), nil
}

type c13part struct{ idx, start, sectors int64 }

func execPartitionIO(t *core.Trace, prop string) *core.Result {
	res := core.NewResult()
	lss, pss, size := t.I("lss"), t.I("pss"), t.I("size")
	if lss != 512 && lss != 4096 {
		lss = 512
	}
	if pss != 512 && pss != 4096 {
		pss = lss
	}
	if size <= 0 || size > 64<<30 {
		size = 64 << 30
	}
	kind := t.I("kind")
	var parts []c13part
	for _, o := range t.Ops {
		if o.K == "part" && o.B >= 40 && o.C >= 1 && len(parts) < 4 {
			ok := (o.B+o.C)*lss <= size-40*lss && o.B+o.C < 1<<32
			for _, q := range parts {
				if o.B < q.start+q.sectors && q.start < o.B+o.C || q.idx == o.A {
					ok = false
				}
			}
			if ok {
				parts = append(parts, c13part{o.A, o.B, o.C})
			}
		}
	}
	if len(parts) == 0 {
		res.Evals = 1
		return res
	}
	d := simdisk.New(size)
	var tb partition.Table
	if kind == 0 {
		res.Probe("gpt")
		spec := gptSpec{GUID: "AAAAAAAA-BBBB-CCCC-DDDD-EEEEEEEEEEEE"}
		for _, p := range parts {
			spec.Parts = append(spec.Parts, gptPart{Index: int(p.idx), Start: uint64(p.start), End: uint64(p.start + p.sectors - 1), Type: knownTypes[1], GUID: fmt.Sprintf("AAAAAAAA-BBBB-CCCC-DDDD-%012X", p.idx), Name: "p"})
		}
		tb = spec.table(int(lss), int(pss))
	} else {
		res.Probe("mbr")
		var spec mbrSpec
		for i := int64(1); i <= 4; i++ {
			var mp mbrPart
			for _, p := range parts {
				if p.idx == i {
					mp = mbrPart{Type: 0x83, Start: uint32(p.start), Size: uint32(p.sectors)}
				}
			}
			spec.Parts = append(spec.Parts, mp)
		}
		tb = spec.table(int(lss), int(pss))
	}
	dk := &disk.Disk{Backend: d, Size: size, LogicalBlocksize: lss, PhysicalBlocksize: pss}
	if err := dk.Partition(tb); err != nil {
		res.Evals = 1
		res.Sample = "layout refused: " + err.Error()
		return res
	}
	// a fresh Disk that reads the table from the bytes, as a user opening the image would
	dk = &disk.Disk{Backend: d, Size: size, LogicalBlocksize: lss, PhysicalBlocksize: pss}
	if _, err := dk.GetPartitionTable(); err != nil {
		res.V = &core.Violation{Clause: prop + ".setup", Trigger: "GetPartitionTable", Locus: "partition.Read", Detail: err.Error(), OpIndex: -1}
		return res
	}
	// noise in every partition and around, so that misplaced reads/writes are visible
	for _, p := range parts {
		n := p.sectors * lss
		if n > 1<<20 {
			n = 1 << 20
		}
		d.FillNoise(p.start*lss-8*lss, n+16*lss, t.Seed+uint64(p.idx))
	}
	find := func(i int64) *c13part {
		for k := range parts {
			if parts[k].idx == i {
				return &parts[k]
			}
		}
		return nil
	}
	want := func(clause string) bool { return len(clause) > 3 && clause[:3] == prop }
	viol := func(i int, clause, trig, locus, detail string) *core.Result {
		res.V = &core.Violation{Clause: clause, Trigger: trig, Locus: locus, Detail: detail, OpIndex: i}
		return res
	}
	if pss > lss {
		res.Probe("physical-gt-logical")
	}
	afterCopy := false
	for i, o := range t.Ops {
		if o.K == "part" {
			continue
		}
		p := find(o.A)
		if p == nil {
			continue
		}
		pOff, pLen := p.start*lss, p.sectors*lss
		if pOff >= 1<<32 {
			res.Probe("start-beyond-4GiB")
		}
		if pLen >= 1<<32 {
			res.Probe("size-beyond-4GiB")
		}
		kname := map[int64]string{0: "gpt", 1: "mbr"}[kind]
		geo := fmt.Sprintf("%s,start%s,size%s", kname, cls4g(pOff), cls4g(pLen))
		geoFull := fmt.Sprintf("%s,pss%slss,lss%d", geo, map[bool]string{true: ">", false: "="}[pss > lss], lss)
		res.Steps++
		res.Evals++
		switch o.K {
		case "write":
			total := pLen + o.B
			if total < 0 {
				total = 0
			}
			mode := int(o.C % 6)
			if pLen >= 1<<30 && mode != 0 && mode != 3 {
				mode = 0 // huge partitions are only streamed in full buffers
			}
			rd := &simReader{total: total, mode: mode, k: o.D, zeros: pLen >= 1<<30, tag: core.Mix(t.Seed, uint64(i)), rng: core.NewRng(core.Mix(t.Seed, uint64(i), 1)), res: res}
			if mode == 5 && rd.k > total {
				rd.k = total / 2
			}
			expectOK := total == pLen && mode != 5
			rel := "exact"
			switch {
			case total < pLen:
				rel = "short"
				res.Probe("short-reader")
			case total > pLen:
				rel = "long"
				res.Probe("long-reader")
			default:
				res.Probe("exact-reader")
			}
			if mode == 5 {
				rel += "+err"
				res.Probe("reader-error")
			}
			if mode == 3 {
				res.Probe("n-and-EOF")
			}
			if mode == 4 {
				res.Probe("zero-nil-read")
			}
			trig := fmt.Sprintf("write(%s)", geo)
			caseKey := fmt.Sprintf("write(%s,mode%d,%s)", rel, mode, geoFull)
			before := d.Clone()
			d.SetGuard(simdisk.Extent{Off: pOff, Len: pLen})
			d.St = simdisk.Stats{}
			var n int64
			var err error
			if pk, pv, loc, _ := core.Guard(func() { n, err = dk.WritePartitionContents(int(p.idx), rd) }); pk {
				if want("C13.panic") {
					return viol(i, "C13.panic", trig+":"+core.PanicClass(pv), loc, fmt.Sprint(pv))
				}
				return res
			}
			res.DevOps += d.St.Writes
			if !afterCopy {
				res.DevOps += d.St.Reads
			}
			gh := d.GuardHit
			d.ClearGuard()
			if gh != nil {
				cl := prop + ".write-outside-partition"
				return viol(i, cl, trig, gh.Locus, fmt.Sprintf("WritePartitionContents(part %d at [%d,+%d)) wrote [%d,+%d): outside the partition (err=%v)", p.idx, pOff, pLen, gh.Off, gh.Len, err))
			}
			if hashOutside(before, [][2]int64{{pOff, pLen}}) != hashOutside(d, [][2]int64{{pOff, pLen}}) {
				return viol(i, prop+".write-outside-partition", trig, "partition.WriteContents", "bytes outside the partition changed")
			}
			if prop != "C13" {
				continue
			}
			res.Hashes = append(res.Hashes, core.HashStr(caseKey))
			if (err == nil) != expectOK {
				return viol(i, "C13.write-accept-iff-exact", trig, "partition.WriteContents", fmt.Sprintf("partition size %d, stream length %d (mode %d): err=%v, n=%d; success is expected exactly when the stream supplies the partition's size", pLen, total, mode, err, n))
			}
			if err == nil {
				res.Probe("write-accepted")
				if n != pLen {
					return viol(i, "C13.write-count", trig, "partition.WriteContents", fmt.Sprintf("returned n=%d for a %d-byte partition", n, pLen))
				}
				// device bytes equal the stream
				if bad := firstDiff(d, pOff, pLen, rd); bad >= 0 {
					return viol(i, "C13.write-content", trig, "partition.WriteContents", fmt.Sprintf("device byte at partition offset %d differs from the stream (partition at %d)", bad, pOff))
				}
			} else {
				res.Probe("write-refused")
			}
		case "read":
			trig := "read(" + geo + ")"
			w := &cmpWriter{d: d, off: pOff, limit: pLen, bad: -1}
			var n int64
			var err error
			d.St = simdisk.Stats{}
			if pk, pv, loc, _ := core.Guard(func() { n, err = dk.ReadPartitionContents(int(p.idx), w) }); pk {
				if prop == "C13" {
					return viol(i, "C13.panic", trig+":"+core.PanicClass(pv), loc, fmt.Sprint(pv))
				}
				return res
			}
			if !afterCopy {
				res.DevOps += d.St.Reads
			}
			if prop != "C13" {
				continue
			}
			res.Hashes = append(res.Hashes, core.HashStr("read"+geoFull))
			if err != nil {
				return viol(i, "C13.read-error", trig, "partition.ReadContents", err.Error())
			}
			if n != pLen || w.pos != pLen {
				return viol(i, "C13.read-length", trig, "partition.ReadContents", fmt.Sprintf("partition of %d bytes at %d: returned n=%d and delivered %d bytes to the writer", pLen, pOff, n, w.pos))
			}
			if w.bad >= 0 {
				return viol(i, "C13.read-content", trig, "partition.ReadContents", fmt.Sprintf("byte %d delivered differs from the device at %d", w.bad, pOff+w.bad))
			}
		case "copyraw":
			q := find(o.B)
			if q == nil || q.idx == p.idx || pLen >= 1<<30 || q.sectors*lss >= 1<<30 {
				continue
			}
			qOff, qLen := q.start*lss, q.sectors*lss
			rel := "equal"
			if qLen > pLen {
				rel = "larger-target"
			} else if qLen < pLen {
				rel = "smaller-target"
			}
			trig := fmt.Sprintf("copyraw(%s,%s)", rel, geo)
			before := d.Clone()
			d.Locked = true
			d.SetGuard(simdisk.Extent{Off: qOff, Len: qLen})
			var err error
			done := make(chan struct{})
			var pk bool
			var pv any
			var loc string
			go func() {
				pk, pv, loc, _ = core.Guard(func() { err = dsync.CopyPartitionRaw(dk, int(p.idx), int(q.idx)) })
				close(done)
			}()
			select {
			case <-done:
			case <-time.After(30 * time.Second):
				return viol(i, "C13.copyraw-never-returns", trig, "sync.CopyPartitionRaw", "no return within 30 s")
			}
			res.Fault("sched-unconstrained-goroutines")
			// (the copy's reading goroutine may still be finishing its last read when CopyPartitionRaw has returned: from
			// here on device reads are not added to the step measure, which has to be the same in every execution)
			afterCopy = true
			gh := d.GuardHit
			d.ClearGuard()
			d.Locked = false
			if pk {
				if prop == "C13" {
					return viol(i, "C13.panic", trig+":"+core.PanicClass(pv), loc, fmt.Sprint(pv))
				}
				return res
			}
			if gh != nil {
				return viol(i, prop+".write-outside-partition", trig, gh.Locus, fmt.Sprintf("CopyPartitionRaw wrote [%d,+%d) outside target partition [%d,+%d)", gh.Off, gh.Len, qOff, qLen))
			}
			if hashOutside(before, [][2]int64{{qOff, qLen}}) != hashOutside(d, [][2]int64{{qOff, qLen}}) {
				return viol(i, prop+".write-outside-partition", trig, "sync.CopyPartitionRaw", "bytes outside the target partition changed")
			}
			if prop != "C13" {
				continue
			}
			res.Hashes = append(res.Hashes, core.HashStr(trig+geoFull))
			if qLen >= pLen {
				if qLen == pLen {
					res.Probe("copyraw-equal")
				} else {
					res.Probe("copyraw-larger-target")
				}
				if err != nil {
					return viol(i, "C13.copyraw-failed", trig, "sync.CopyPartitionRaw", fmt.Sprintf("source %d bytes, target %d bytes: %v", pLen, qLen, err))
				}
				src := before.Peek(pOff, pLen)
				dst := d.Peek(qOff, pLen)
				for k := range src {
					if src[k] != dst[k] {
						return viol(i, "C13.copyraw-content", trig, "sync.CopyPartitionRaw", fmt.Sprintf("target byte %d differs from the source", k))
					}
				}
			} else if err == nil {
				return viol(i, "C13.copyraw-failed", trig, "sync.CopyPartitionRaw", "copy into a smaller target reported success")
			}
		}
	}
	if res.Evals == 0 {
		res.Evals = 1
	}
	res.Sample = t.Summary()
	return res
}

func cls4g(v int64) string {
	if v >= 1<<32 {
		return ">=4G"
	}
	return "<4G"
}

// firstDiff compares device bytes [off, off+n) with what the stream delivered.
func firstDiff(d *simdisk.Disk, off, n int64, rd *simReader) int64 {
	const chunk = 1 << 20
	for pos := int64(0); pos < n; pos += chunk {
		c := int64(chunk)
		if pos+c > n {
			c = n - pos
		}
		b := d.Peek(off+pos, c)
		for i := int64(0); i < c; i++ {
			w := byte(0)
			if !rd.zeros {
				w = streamByte(rd.tag, pos+i)
			}
			if b[i] != w {
				return pos + i
			}
		}
	}
	return -1
}

func (c13) Exec(t *core.Trace) *core.Result { return execPartitionIO(t, "C13") }
