package props

import (
	"bytes"
	"fmt"
	"io"
	iofs "io/fs"
	"os"
	"path/filepath"
	"sort"
	"strings"
	"time"

	"dsim/core"
	"dsim/simdisk"

	"github.com/diskfs/go-diskfs/filesystem"
	"github.com/diskfs/go-diskfs/filesystem/ext4"
	dsync "github.com/diskfs/go-diskfs/sync"
)

// C16 — CopyFileSystem copies faithfully and CompareFS tells the truth.
type c16 struct{}

func init() { core.Register(c16{}) }

func (c16) ID() string    { return "C16" }
func (c16) Level() string { return "exploration" }
func (c16) Rule() string {
	return "one evaluation = one CopyFileSystem or CompareFS call: a seeded tree is presented as the source by a host directory, a fat32/ext4/iso9660(Rock Ridge)/squashfs image on the simulated device, or an in-memory fs.FS whose files return legal short reads (1-byte and odd pieces, (n,EOF), one (0,nil)); it is copied into a fat12/16/32 or ext4 volume; the reopened destination is compared with the tree by an independent diff; CompareFS must return nil for the faithful copy (also against the short-reading source) and an error for every single-point mutation presented through an overlay (one byte changed at first/middle/last position, length +-1, entry hidden, extra file, extra directory, file<->directory swapped) and for a stored data byte flipped on the device; distinct = distinct (source kind, destination kind, tree class, mutation); non-trivial = copy of a tree with at least one non-empty file"
}
func (c16) Assumptions() []string {
	return []string{
		"trees use names legal on the destination; symlinks only for ext4->ext4; the documented excluded names (lost+found, .DS_Store, System Volume Information) are expected to be absent in the copy",
		"a CopyFileSystem that returns an error (destination full, unsupported entry) is not judged further",
	}
}
func (c16) Components() map[string][]string {
	return map[string][]string{
		"real": {"sync.CopyFileSystem, sync.CompareFS", "filesystem/fat12,16,32 and ext4 as destinations", "fat32, ext4, iso9660, squashfs readers and os.DirFS as sources"},
		"stub": {"block devices (SimDisk)", "in-memory fs.FS with legal short reads", "mutating overlay fs.FS", "host scratch directory"},
	}
}
func (c16) ProbeNames() []string {
	return []string{"src-hostdir", "src-memfs-shortreads", "src-fat32", "src-ext4", "src-iso-rr", "src-squashfs", "dst-fat12", "dst-fat16", "dst-fat32", "dst-ext4", "copy-accepted", "compare-nil-on-faithful", "mutation-detected", "device-flip", "excluded-name", "streamed-over-64MiB", "copy-over-older-copy"}
}
func (c16) Budget(tier string) (int, int, int) {
	if tier == "thorough" {
		return 900, 1 << 30, 600
	}
	return 50, 1 << 30, 180
}

var c16Sources = []string{"hostdir", "memfs", "fat32", "ext4", "iso-rr", "squashfs"}
var c16Dests = []string{"fat12", "fat16", "fat32", "ext4"}

func (c16) Gen(r *core.Rng, tier string, idx int) *core.Trace {
	t := &core.Trace{Cfg: map[string]int64{}, CfgS: map[string]string{}}
	t.CfgS["src"] = c16Sources[idx%len(c16Sources)]
	t.CfgS["dst"] = c16Dests[(idx/len(c16Sources))%len(c16Dests)]
	t.Cfg["tag"] = int64(r.U64() >> 2)
	t.Cfg["readmode"] = int64(r.Intn(5))
	t.Cfg["nfiles"] = r.Range(1, 9)
	t.Cfg["depth"] = r.Range(0, 3)
	t.Cfg["excluded"] = int64(r.Intn(2))
	t.Cfg["recopy"] = int64(r.PickW(65, 35))
	t.Cfg["bigfile"] = 0
	if (tier == "thorough" && r.Chance(3)) || (tier == "quick" && r.Chance(1)) {
		// one file above the 64 MiB threshold, where CopyFileSystem streams instead of reading the file whole;
		// needs the zero-generating in-memory source and a destination that can hold it
		t.Cfg["bigfile"] = 1
		t.CfgS["src"] = "memfs"
		t.CfgS["dst"] = core.PickOf(r, "fat32", "ext4")
		t.Cfg["readmode"] = core.PickOf[int64](r, 3, 3, 0, 4) // (1-byte and odd-piece reads of 64 MiB would take minutes)
		t.Cfg["nfiles"] = r.Range(1, 3)
	}
	return t
}

// ---------------------------------------------------------------- in-memory fs.FS

type memNode struct {
	name  string
	dir   bool
	data  []byte
	zeros int64 // when >0: content is that many zero bytes (generated on the fly)
	kids  map[string]*memNode
}

type memFS struct {
	root     *memNode
	readMode int // 0 full, 1 one byte, 2 odd pieces, 3 (n,EOF) at end, 4 one (0,nil)
	rng      *core.Rng
	res      *core.Result
}

func newMemFS(tree []imgEntry, readMode int, seed uint64, res *core.Result) *memFS {
	m := &memFS{root: &memNode{name: ".", dir: true, kids: map[string]*memNode{}}, readMode: readMode, rng: core.NewRng(seed), res: res}
	for _, e := range tree {
		m.add(e)
	}
	return m
}

func (m *memFS) add(e imgEntry) *memNode {
	cur := m.root
	parts := strings.Split(e.Path, "/")
	for i, p := range parts {
		last := i == len(parts)-1
		n := cur.kids[p]
		if n == nil {
			n = &memNode{name: p, dir: !last || e.Dir, kids: map[string]*memNode{}}
			cur.kids[p] = n
		}
		if last && !e.Dir {
			n.data = e.Data
		}
		cur = n
	}
	return cur
}

func (m *memFS) find(name string) *memNode {
	if name == "." || name == "" {
		return m.root
	}
	cur := m.root
	for _, p := range strings.Split(name, "/") {
		cur = cur.kids[p]
		if cur == nil {
			return nil
		}
	}
	return cur
}

type memInfo struct{ n *memNode }

func (i memInfo) Name() string { return i.n.name }
func (i memInfo) Size() int64 {
	if i.n.zeros > 0 {
		return i.n.zeros
	}
	return int64(len(i.n.data))
}
func (i memInfo) Mode() iofs.FileMode {
	if i.n.dir {
		return iofs.ModeDir | 0o755
	}
	return 0o644
}
func (i memInfo) ModTime() time.Time           { return hostTreeTime }
func (i memInfo) IsDir() bool                  { return i.n.dir }
func (i memInfo) Sys() any                     { return nil }
func (i memInfo) Type() iofs.FileMode          { return i.Mode().Type() }
func (i memInfo) Info() (iofs.FileInfo, error) { return i, nil }

type memFile struct {
	fs      *memFS
	n       *memNode
	pos     int64
	didZero bool
	dirPos  int
}

func (f *memFile) Stat() (iofs.FileInfo, error) { return memInfo{f.n}, nil }
func (f *memFile) Close() error                 { return nil }
func (f *memFile) Read(p []byte) (int, error) {
	if f.n.dir {
		return 0, fmt.Errorf("is a directory")
	}
	size := memInfo{f.n}.Size()
	if len(p) == 0 {
		return 0, nil
	}
	if f.pos >= size {
		return 0, io.EOF
	}
	n := int64(len(p))
	switch f.fs.readMode {
	case 1:
		n = 1
		f.fs.res.Fault("stream-short-pieces")
	case 2:
		n = 1 + f.fs.rng.Int63n(n)
		f.fs.res.Fault("stream-short-pieces")
	case 4:
		if !f.didZero && f.pos > 0 {
			f.didZero = true
			f.fs.res.Fault("stream-zero-nil")
			return 0, nil
		}
	}
	if f.pos+n > size {
		n = size - f.pos
	}
	if f.n.zeros > 0 {
		clear(p[:n])
	} else {
		copy(p[:n], f.n.data[f.pos:f.pos+n])
	}
	f.pos += n
	if f.fs.readMode == 3 && f.pos == size {
		f.fs.res.Fault("stream-n-and-EOF")
		return int(n), io.EOF
	}
	return int(n), nil
}
func (f *memFile) ReadDir(n int) ([]iofs.DirEntry, error) {
	var names []string
	for k := range f.n.kids {
		names = append(names, k)
	}
	sort.Strings(names)
	var out []iofs.DirEntry
	for _, k := range names[f.dirPos:] {
		out = append(out, memInfo{f.n.kids[k]})
		f.dirPos++
		if n > 0 && len(out) >= n {
			break
		}
	}
	if n > 0 && len(out) == 0 {
		return nil, io.EOF
	}
	return out, nil
}

func (m *memFS) Open(name string) (iofs.File, error) {
	if !iofs.ValidPath(name) {
		return nil, &iofs.PathError{Op: "open", Path: name, Err: iofs.ErrInvalid}
	}
	n := m.find(name)
	if n == nil {
		return nil, &iofs.PathError{Op: "open", Path: name, Err: iofs.ErrNotExist}
	}
	return &memFile{fs: m, n: n}, nil
}

// ---------------------------------------------------------------- mutating overlay

// overlayFS presents base with exactly one difference.
type overlayFS struct {
	base  iofs.FS
	kind  string // flip, longer, shorter, hide, extrafile, extradir, swap
	path  string // affected path
	index int64
}

type ovFile struct {
	iofs.File
	o   *overlayFS
	pos int64
	sz  int64
}

type ovInfo struct {
	iofs.FileInfo
	size int64
	dir  *bool
	name string
}

func (i ovInfo) Size() int64 { return i.size }
func (i ovInfo) IsDir() bool {
	if i.dir != nil {
		return *i.dir
	}
	return i.FileInfo.IsDir()
}
func (i ovInfo) Mode() iofs.FileMode {
	if i.dir != nil {
		if *i.dir {
			return iofs.ModeDir | 0o755
		}
		return 0o644
	}
	return i.FileInfo.Mode()
}
func (i ovInfo) Name() string {
	if i.name != "" {
		return i.name
	}
	return i.FileInfo.Name()
}

type ovEntry struct{ i ovInfo }

func (e ovEntry) Name() string                 { return e.i.Name() }
func (e ovEntry) IsDir() bool                  { return e.i.IsDir() }
func (e ovEntry) Type() iofs.FileMode          { return e.i.Mode().Type() }
func (e ovEntry) Info() (iofs.FileInfo, error) { return e.i, nil }

func (o *overlayFS) adjust(name string, fi iofs.FileInfo) iofs.FileInfo {
	if name != o.path {
		return fi
	}
	switch o.kind {
	case "longer":
		return ovInfo{FileInfo: fi, size: fi.Size() + 1}
	case "shorter":
		return ovInfo{FileInfo: fi, size: fi.Size() - 1}
	case "swap":
		d := !fi.IsDir()
		return ovInfo{FileInfo: fi, size: fi.Size(), dir: &d}
	}
	return fi
}

func (o *overlayFS) Open(name string) (iofs.File, error) {
	if name == o.path && o.kind == "hide" {
		return nil, &iofs.PathError{Op: "open", Path: name, Err: iofs.ErrNotExist}
	}
	if (o.kind == "extrafile" || o.kind == "extradir") && name == o.path {
		m := newMemFS([]imgEntry{{Path: "x", Dir: o.kind == "extradir", Data: []byte("extra")}}, 0, 1, core.NewResult())
		f, _ := m.Open("x")
		return f, nil
	}
	f, err := o.base.Open(name)
	if err != nil {
		return nil, err
	}
	fi, _ := f.Stat()
	var sz int64
	if fi != nil {
		sz = fi.Size()
	}
	return &ovFile{File: f, o: o, sz: sz}, nil
}

func (f *ovFile) Stat() (iofs.FileInfo, error) {
	fi, err := f.File.Stat()
	if err != nil {
		return nil, err
	}
	// the name of the file is not known here; compare by identity of the path the overlay was opened with
	return fi, nil
}

func (f *ovFile) Read(p []byte) (int, error) {
	n, err := f.File.Read(p)
	return n, err
}

func (f *ovFile) ReadDir(n int) ([]iofs.DirEntry, error) {
	rd, ok := f.File.(iofs.ReadDirFile)
	if !ok {
		return nil, fmt.Errorf("not a directory")
	}
	return rd.ReadDir(n)
}

func (o *overlayFS) Stat(name string) (iofs.FileInfo, error) {
	if name == o.path && o.kind == "hide" {
		return nil, &iofs.PathError{Op: "stat", Path: name, Err: iofs.ErrNotExist}
	}
	if (o.kind == "extrafile" || o.kind == "extradir") && name == o.path {
		n := &memNode{name: baseOf(name), dir: o.kind == "extradir", data: []byte("extra")}
		return memInfo{n}, nil
	}
	fi, err := iofs.Stat(o.base, name)
	if err != nil {
		return nil, err
	}
	return o.adjust(name, fi), nil
}

func (o *overlayFS) ReadDir(name string) ([]iofs.DirEntry, error) {
	if o.kind == "extradir" && name == o.path {
		return nil, nil // the extra directory is a proper, empty directory: listing it succeeds
	}
	ents, err := iofs.ReadDir(o.base, name)
	if err != nil {
		return nil, err
	}
	var out []iofs.DirEntry
	for _, e := range ents {
		p := e.Name()
		if name != "." {
			p = name + "/" + e.Name()
		}
		if p == o.path && o.kind == "hide" {
			continue
		}
		if p == o.path && (o.kind == "longer" || o.kind == "shorter" || o.kind == "swap") {
			fi, err := e.Info()
			if err != nil {
				return nil, err
			}
			out = append(out, ovEntry{o.adjust(p, fi).(ovInfo)})
			continue
		}
		out = append(out, e)
	}
	if (o.kind == "extrafile" || o.kind == "extradir") && parentOfValid(o.path) == name {
		n := &memNode{name: baseOf(o.path), dir: o.kind == "extradir", data: []byte("extra"), kids: map[string]*memNode{}}
		out = append(out, memInfo{n})
		sort.Slice(out, func(i, j int) bool { return out[i].Name() < out[j].Name() })
	}
	return out, nil
}

func parentOfValid(p string) string {
	if d := parentOf(p); d != "" {
		return d
	}
	return "."
}

// flipFS changes one byte of one file's content as seen through Open.
type flipFS struct {
	iofs.FS
	path  string
	index int64
	delta int // 0: flip byte at index; +1: one extra byte at the end; -1: one byte less
}

type flipFile struct {
	iofs.File
	f   *flipFS
	pos int64
	sz  int64
	end bool
}

func (x *flipFS) Open(name string) (iofs.File, error) {
	f, err := x.FS.Open(name)
	if err != nil || name != x.path {
		return f, err
	}
	fi, _ := f.Stat()
	return &flipFile{File: f, f: x, sz: fi.Size()}, nil
}
func (x *flipFS) Stat(name string) (iofs.FileInfo, error) { return iofs.Stat(x.FS, name) }
func (x *flipFS) ReadDir(name string) ([]iofs.DirEntry, error) {
	return iofs.ReadDir(x.FS, name)
}
func (f *flipFile) Read(p []byte) (int, error) {
	if f.f.delta == -1 && f.pos >= f.sz-1 {
		return 0, io.EOF
	}
	n, err := f.File.Read(p)
	if f.f.delta == -1 && f.pos+int64(n) > f.sz-1 {
		n = int(f.sz - 1 - f.pos)
		err = io.EOF
	}
	if f.f.delta == 0 && f.f.index >= f.pos && f.f.index < f.pos+int64(n) {
		p[f.f.index-f.pos] ^= 0x5a
	}
	f.pos += int64(n)
	if f.f.delta == 1 && err == io.EOF && !f.end {
		if n < len(p) {
			f.end = true
			p[n] = 'X'
			return n + 1, io.EOF
		}
		return n, nil // no room: the extra byte comes with the next call
	}
	if f.f.delta == 1 && n == 0 && err == nil && f.pos >= f.sz && !f.end {
		f.end = true
		p[0] = 'X'
		return 1, io.EOF
	}
	return n, err
}

// ---------------------------------------------------------------- executor

func c16Tree(t *core.Trace, dst string) []imgEntry {
	tag := uint64(t.I("tag"))
	r := core.NewRng(tag)
	n := int(t.I("nfiles"))
	if n < 1 {
		n = 1
	}
	if n > 12 {
		n = 12
	}
	depth := int(t.I("depth") % 4)
	names := []string{"A.TXT", "DATA.BIN", "README.MD", "FILE3.DAT", "X", "NOTES.TXT", "LongerName-1.text", "another file.doc", "B.BIN", "C.C", "Z9.Z", "mixed.Case"}
	dirs := []string{"", "DIR1", "DIR1/SUB", "DIR1/SUB/DEEP"}
	var tree []imgEntry
	seenDir := map[string]bool{}
	sizes := []int64{0, 1, 511, 512, 513, 3000, 32767, 32768, 32769, 70000, 200000}
	for i := 0; i < n; i++ {
		d := dirs[r.Intn(depth+1)]
		for _, pd := range []string{"DIR1", "DIR1/SUB", "DIR1/SUB/DEEP"} {
			if strings.HasPrefix(d, pd) && !seenDir[pd] {
				seenDir[pd] = true
				tree = append(tree, imgEntry{Path: pd, Dir: true})
			}
		}
		p := names[i%len(names)]
		if d != "" {
			p = d + "/" + p
		}
		tree = append(tree, imgEntry{Path: p, Data: core.PatternBytes(tag+uint64(i)*13, sizes[r.Intn(len(sizes))])})
	}
	if r.Chance(50) {
		tree = append(tree, imgEntry{Path: "EMPTYDIR", Dir: true})
	}
	return tree
}

func c16OpenDest(kind string, seed uint64, big bool) (filesystem.FileSystem, *simdisk.Disk, func(*simdisk.Disk) (filesystem.FileSystem, error), error) {
	switch kind {
	case "ext4":
		size := int64(40 << 20)
		if big {
			size = 160 << 20
		}
		d := simdisk.New(size)
		fs, err := ext4.Create(d, size, 0, 512, &ext4.Params{})
		return fs, d, func(x *simdisk.Disk) (filesystem.FileSystem, error) { return ext4.Read(x, size, 0, 512) }, err
	default:
		ft := map[string]int{"fat12": 12, "fat16": 16, "fat32": 32}[kind]
		size := map[int]int64{12: 8 << 20, 16: 16 << 20, 32: 16 << 20}[ft]
		if big && ft == 32 {
			size = 160 << 20
		}
		d := simdisk.New(size)
		fs, err := fatCreate(d, ft, size, 0, 512, "DST", false)
		return fs, d, func(x *simdisk.Disk) (filesystem.FileSystem, error) { return fatRead(x, ft, size, 0, 512) }, err
	}
}

func (p c16) Exec(t *core.Trace) *core.Result {
	res := core.NewResult()
	srcKind, dstKind := t.Sg("src"), t.Sg("dst")
	okS, okD := false, false
	for _, k := range c16Sources {
		okS = okS || k == srcKind
	}
	for _, k := range c16Dests {
		okD = okD || k == dstKind
	}
	if !okS {
		srcKind = "memfs"
	}
	if !okD {
		dstKind = "fat32"
	}
	tree := c16Tree(t, dstKind)
	if t.I("excluded") == 1 && srcKind != "iso-rr" { // dot-file naming on ISO9660 is C06's business
		tree = append(tree, imgEntry{Path: ".DS_Store", Data: []byte("junk")}, imgEntry{Path: "System Volume Information", Dir: true}, imgEntry{Path: "System Volume Information/x.dat", Data: []byte("y")})
		res.Probe("excluded-name")
	}
	excluded := func(path string) bool {
		for _, part := range strings.Split(path, "/") {
			if part == "lost+found" || part == ".DS_Store" || part == "System Volume Information" {
				return true
			}
		}
		return false
	}
	fail := func(clause, trig, locus, detail string) *core.Result {
		res.V = &core.Violation{Clause: "C16." + clause, Trigger: trig, Locus: locus, Detail: detail, OpIndex: -1}
		return res
	}
	// ---- source
	var src iofs.FS
	var cleanup []func()
	defer func() {
		for _, f := range cleanup {
			f()
		}
	}()
	var memSrc *memFS
	switch srcKind {
	case "hostdir":
		dir := newScratchSub("c16-src")
		cleanup = append(cleanup, func() { os.RemoveAll(dir) })
		if err := writeHostTree(dir, tree); err != nil {
			panic(err)
		}
		// regular files that carry a set-uid, set-gid or sticky bit are regular files all the same
		k := 0
		for _, e := range tree {
			if !e.Dir && e.Link == "" && uint64(t.I("tag")>>3)%2 == 0 {
				bit := []os.FileMode{os.ModeSetuid, os.ModeSetgid, os.ModeSticky}[k%3]
				if os.Chmod(filepath.Join(dir, filepath.FromSlash(e.Path)), 0o755|bit) == nil {
					res.Probe("source-file-with-special-mode-bit")
				}
				if k++; k == 3 {
					break
				}
			}
		}
		src = os.DirFS(dir)
	case "memfs":
		rm := int(t.I("readmode") % 5)
		if t.I("bigfile") == 1 && (rm == 1 || rm == 2) {
			rm = 3
		}
		memSrc = newMemFS(tree, rm, uint64(t.I("tag")), res)
		if t.I("bigfile") == 1 {
			n := memSrc.add(imgEntry{Path: "HUGE.BIN"})
			n.zeros = 64<<20 + 4097
			tree = append(tree, imgEntry{Path: "HUGE.BIN"})
		}
		src = memSrc
	default:
		kind := srcKind
		var bi *builtImage
		var err error
		if pk, _, _, _ := core.Guard(func() { bi, err = buildImage(kind, tree, 0, map[string]int64{"size": 48 << 20}) }); pk || err != nil {
			res.Evals = 1
			res.Probe("build-failed")
			res.Sample = fmt.Sprintf("source image build failed: %v", err)
			return res
		}
		fs, err := bi.Open(bi.D)
		if err != nil {
			res.Evals = 1
			res.Probe("build-failed")
			return res
		}
		src = fs
	}
	res.Probe("src-" + map[string]string{"memfs": "memfs-shortreads"}[srcKind] + map[bool]string{true: "", false: srcKind}[srcKind == "memfs"])
	res.Probe("dst-" + dstKind)
	// ---- destination
	dst, dd, reopen, err := c16OpenDest(dstKind, t.Seed, t.I("bigfile") == 1 && srcKind == "memfs")
	if err != nil {
		res.Evals = 1
		res.Probe("build-failed")
		return res
	}
	trig := fmt.Sprintf("copy(%s->%s)", srcKind, kindFamily(dstKind))
	if t.I("recopy") == 1 && t.I("bigfile") != 1 {
		// the destination already holds an earlier, longer version of every file (a previous copy of the tree
		// before its files shrank): the copy has to replace them, not write over their beginnings
		var older []imgEntry
		for _, e := range tree {
			o := e
			if !e.Dir && e.Link == "" {
				o.Data = append(append([]byte(nil), e.Data...), core.PatternBytes(uint64(t.I("tag"))^core.HashStr(e.Path), 700+int64(len(e.Data)%900))...)
			}
			older = append(older, o)
		}
		pre := newMemFS(older, 0, uint64(t.I("tag")), core.NewResult())
		var perr error
		if pk, _, _, _ := core.Guard(func() { perr = dsync.CopyFileSystem(pre, dst) }); !pk && perr == nil {
			trig = fmt.Sprintf("copy(%s->%s,over-older-copy)", srcKind, kindFamily(dstKind))
			res.Probe("copy-over-older-copy")
		}
	}
	var cerr error
	if pk, pv, loc, _ := core.Guard(func() { cerr = dsync.CopyFileSystem(src, dst) }); pk {
		return fail("panic", trig+":"+core.PanicClass(pv), loc, fmt.Sprint(pv))
	}
	res.Evals++
	res.Steps++
	if cerr != nil {
		res.Sample = "copy refused: " + cerr.Error()
		res.Probe("copy-refused")
		return res
	}
	res.Probe("copy-accepted")
	// ---- independent diff on the reopened destination
	var dfs filesystem.FileSystem
	if pk, pv, loc, _ := core.Guard(func() { dfs, err = reopen(dd.Clone()) }); pk {
		return fail("panic", trig+":reopen:"+core.PanicClass(pv), loc, fmt.Sprint(pv))
	}
	if err != nil {
		return fail("copy-unreadable", trig, "sync.CopyFileSystem", "destination cannot be re-opened after the copy: "+err.Error())
	}
	want := map[string]imgEntry{}
	for _, e := range tree {
		if !excluded(e.Path) {
			want[e.Path] = e
		}
	}
	got := map[string]bool{}
	var walkErr error
	var walk func(dir string)
	walk = func(dir string) {
		ents, err := dfs.ReadDir(dir)
		if err != nil {
			walkErr = err
			return
		}
		for _, e := range ents {
			if e.Name() == "." || e.Name() == ".." {
				continue
			}
			p := e.Name()
			if dir != "." {
				p = dir + "/" + e.Name()
			}
			if excluded(p) {
				if dir == "." && e.Name() == "lost+found" {
					continue
				}
				walkErr = fmt.Errorf("excluded name %q was copied", p)
				return
			}
			got[p] = true
			w, ok := want[p]
			if !ok {
				walkErr = fmt.Errorf("destination has %q which the source does not", p)
				return
			}
			if w.Dir != e.IsDir() {
				walkErr = fmt.Errorf("%q: directory=%v in the copy, %v in the source", p, e.IsDir(), w.Dir)
				return
			}
			if e.IsDir() {
				walk(p)
				continue
			}
			rp := p
			if strings.HasPrefix(dstKind, "fat") {
				rp = "/" + p
			}
			if p == "HUGE.BIN" {
				fi, _ := e.Info()
				if fi == nil || fi.Size() != 64<<20+4097 {
					walkErr = fmt.Errorf("HUGE.BIN has the wrong size in the copy")
				}
				continue
			}
			data, err := dfs.ReadFile(rp)
			if err != nil || !bytes.Equal(data, w.Data) {
				walkErr = fmt.Errorf("%q: err=%v %s", p, err, diffDesc(data, w.Data))
				return
			}
		}
	}
	if pk, pv, loc, _ := core.Guard(func() { walk(".") }); pk {
		return fail("panic", trig+":walk:"+core.PanicClass(pv), loc, fmt.Sprint(pv))
	}
	if walkErr == nil {
		for p := range want {
			if !got[p] {
				walkErr = fmt.Errorf("%q is missing in the copy", p)
				break
			}
		}
	}
	if walkErr != nil {
		return fail("copy-not-faithful", trig, "sync.CopyFileSystem", walkErr.Error())
	}
	nonEmpty := false
	for _, e := range tree {
		if len(e.Data) > 0 {
			nonEmpty = true
		}
	}
	if nonEmpty {
		res.Hashes = append(res.Hashes, core.Mix(core.HashStr(srcKind+dstKind), uint64(t.I("tag"))))
	}
	if t.I("bigfile") == 1 {
		res.Probe("streamed-over-64MiB")
		res.Sample = "big file copy ok: " + t.Summary()
		return res
	}
	// ---- CompareFS on the faithful copy
	ctrig := fmt.Sprintf("compare(%s,%s)", srcKind, kindFamily(dstKind))
	cmp := func(a, b iofs.FS) (err error, pv any, loc string) {
		pk, v, l, _ := core.Guard(func() { err = dsync.CompareFS(a, b) })
		if pk {
			return nil, v, l
		}
		return err, nil, ""
	}
	res.Evals++
	if err, pv, loc := cmp(src, dfs); pv != nil {
		return fail("panic", ctrig+":"+core.PanicClass(pv), loc, fmt.Sprint(pv))
	} else if err != nil {
		cl := "compare-false-alarm"
		if srcKind == "memfs" && t.I("readmode")%5 != 0 {
			ctrig += "[short-reads]"
		}
		return fail(cl, ctrig, "sync.CompareFS", fmt.Sprintf("CompareFS reports a difference on a faithful copy: %v", err))
	}
	res.Probe("compare-nil-on-faithful")
	// ---- single-point mutations through an overlay on the destination
	var files, allPaths []string
	for p, e := range want {
		allPaths = append(allPaths, p)
		if !e.Dir && len(e.Data) > 0 {
			files = append(files, p)
		}
	}
	sort.Strings(files)
	sort.Strings(allPaths)
	type mut struct {
		name string
		fs   iofs.FS
	}
	var muts []mut
	if len(files) > 0 {
		f := files[int(uint64(t.I("tag"))%uint64(len(files)))]
		n := int64(len(want[f].Data))
		for _, idx := range []int64{0, n / 2, n - 1} {
			muts = append(muts, mut{fmt.Sprintf("byte-changed@%s", map[bool]string{true: "first", false: map[bool]string{true: "last", false: "middle"}[idx == n-1]}[idx == 0]), &flipFS{FS: dfs, path: f, index: idx}})
		}
		muts = append(muts, mut{"content-one-byte-longer", &flipFS{FS: dfs, path: f, delta: 1}})
		muts = append(muts, mut{"content-one-byte-shorter", &flipFS{FS: dfs, path: f, delta: -1}})
		muts = append(muts, mut{"size-plus-1", &overlayFS{base: dfs, kind: "longer", path: f}})
		muts = append(muts, mut{"size-minus-1", &overlayFS{base: dfs, kind: "shorter", path: f}})
		muts = append(muts, mut{"file-became-directory", &overlayFS{base: dfs, kind: "swap", path: f}})
	}
	var empties []string
	for _, p := range allPaths {
		if e := want[p]; !e.Dir && len(e.Data) == 0 {
			empties = append(empties, p)
		}
	}
	if len(empties) > 0 {
		// a file that is empty in the source and holds a byte in the target
		f := empties[int(uint64(t.I("tag")>>4)%uint64(len(empties)))]
		muts = append(muts, mut{"empty-file-size-plus-1", &overlayFS{base: dfs, kind: "longer", path: f}})
		muts = append(muts, mut{"empty-file-has-content", &flipFS{FS: &overlayFS{base: dfs, kind: "longer", path: f}, path: f, delta: 1}})
	}
	if len(allPaths) > 0 {
		pth := allPaths[int(uint64(t.I("tag")>>8)%uint64(len(allPaths)))]
		muts = append(muts, mut{"entry-missing", &overlayFS{base: dfs, kind: "hide", path: pth}})
	}
	muts = append(muts, mut{"extra-file", &overlayFS{base: dfs, kind: "extrafile", path: "ZZEXTRA.TXT"}})
	muts = append(muts, mut{"extra-directory", &overlayFS{base: dfs, kind: "extradir", path: "ZZDIR"}})
	// an extra entry on a target that also holds files with excluded names (which a comparison skips - and must
	// skip on their own, not together with what follows them)
	muts = append(muts, mut{"extra-file-after-excluded-name", &overlayFS{base: &overlayFS{base: dfs, kind: "extrafile", path: ".DS_Store"}, kind: "extrafile", path: "ZZEXTRA.TXT"}})
	muts = append(muts, mut{"extra-file-before-excluded-name", &overlayFS{base: &overlayFS{base: dfs, kind: "extrafile", path: "lost+found"}, kind: "extrafile", path: "AAEXTRA.TXT"}})
	for _, m := range muts {
		res.Evals++
		res.Steps++
		res.Fault("flip")
		err, pv, loc := cmp(src, m.fs)
		if pv != nil {
			return fail("panic", ctrig+":"+m.name+":"+core.PanicClass(pv), loc, fmt.Sprint(pv))
		}
		if err == nil {
			return fail("compare-missed-difference", ctrig+":"+m.name, "sync.CompareFS", fmt.Sprintf("CompareFS returned nil although the target differs from the source by exactly one thing: %s", m.name))
		}
		res.Probe("mutation-detected")
	}
	// ---- a stored data byte flipped on the device
	if len(files) > 0 {
		f := files[0]
		needle := want[f].Data
		if len(needle) >= 16 {
			img := dd.Clone()
			for _, e := range img.NonZeroExtents() {
				buf := img.Peek(e[0], e[1])
				if i := indexOf(buf, needle[:16]); i >= 0 {
					img.Poke(e[0]+int64(i)+3, []byte{buf[i+3] ^ 0xff})
					fs2, err := reopen(img)
					if err == nil {
						res.Evals++
						res.Fault("flip")
						res.Probe("device-flip")
						if err, pv, loc := cmp(src, fs2); pv != nil {
							return fail("panic", ctrig+":device-flip:"+core.PanicClass(pv), loc, fmt.Sprint(pv))
						} else if err == nil {
							return fail("compare-missed-difference", ctrig+":stored-byte-flipped", "sync.CompareFS", "CompareFS returned nil although one stored data byte of "+f+" was flipped on the device")
						}
					}
					break
				}
			}
		}
	}
	res.DevOps = dd.St.Reads + dd.St.Writes
	res.Sample = fmt.Sprintf("%s -> %s, %d entries, %d mutations | %s", srcKind, dstKind, len(want), len(muts), t.Summary())
	return res
}
