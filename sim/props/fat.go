package props

import (
	"bytes"
	"fmt"
	"io"
	"os"
	"sort"
	"strings"

	"dsim/core"
	"dsim/indep"
	"dsim/simdisk"

	"github.com/diskfs/go-diskfs/backend"
	"github.com/diskfs/go-diskfs/filesystem"
	"github.com/diskfs/go-diskfs/filesystem/fat12"
	"github.com/diskfs/go-diskfs/filesystem/fat16"
	"github.com/diskfs/go-diskfs/filesystem/fat32"
)

// ---------------------------------------------------------------- reference model

type mnode struct {
	dir     bool
	data    []byte
	name    string // name as created (case preserved)
	tainted bool   // an errored call left it in an unspecified (but observed self-consistent) state
}

// treeModel is the "simple in-memory tree": path (lower-cased, '/'-joined, no leading slash) -> node.
type treeModel struct {
	nodes map[string]*mnode
	fold  bool // case-insensitive lookup (FAT)
}

func newTree(fold bool) *treeModel {
	return &treeModel{nodes: map[string]*mnode{"": {dir: true}}, fold: fold}
}
func (m *treeModel) key(p string) string {
	p = strings.Trim(p, "/")
	if m.fold {
		return strings.ToLower(p)
	}
	return p
}
func (m *treeModel) get(p string) *mnode { return m.nodes[m.key(p)] }
func parentOf(p string) string {
	p = strings.Trim(p, "/")
	if i := strings.LastIndex(p, "/"); i >= 0 {
		return p[:i]
	}
	return ""
}
func baseOf(p string) string {
	p = strings.Trim(p, "/")
	if i := strings.LastIndex(p, "/"); i >= 0 {
		return p[i+1:]
	}
	return p
}
func (m *treeModel) children(p string) []string {
	k := m.key(p)
	var out []string
	for q := range m.nodes {
		if q == "" || q == k {
			continue
		}
		if m.key(parentOf(q)) == k {
			out = append(out, q)
		}
	}
	sort.Strings(out)
	return out
}
func (m *treeModel) put(p string, n *mnode) { n.name = baseOf(p); m.nodes[m.key(p)] = n }
func (m *treeModel) del(p string)           { delete(m.nodes, m.key(p)) }
func (m *treeModel) paths() []string {
	var out []string
	for q := range m.nodes {
		out = append(out, q)
	}
	sort.Strings(out)
	return out
}

// applyWrite returns the content after writing data at off (zero-filling any gap).
func applyWrite(old []byte, off int64, data []byte) []byte {
	if len(data) == 0 {
		return old // writing nothing does not extend a file (as with os.File)
	}
	end := off + int64(len(data))
	n := int64(len(old))
	if end < n {
		end = n
	}
	out := make([]byte, end)
	copy(out, old)
	copy(out[off:], data)
	return out
}

// ---------------------------------------------------------------- generator

var fatNamePools = [][]string{
	{"A.TXT", "B.BIN", "FILE1", "DATA.DAT", "X", "README.MD"},
	{"readme.txt", "LongFileName1.txt", "LongFileName2.txt", "LongFileName3.dat", "MiXeD.CaS", "averyveryverylongfilenamethatgoesonandonandon_0123456789.extension"},
	{"Report Final.doc", "x+y=z.txt", "semi;colon.t", "[br].x", "a.b.c.d", "Жук.txt"},
	// names that fit 8.3 and differ from their short form only in the case of the stem or of the extension
	{"DATA.txt", "data.TXT", "7.md", "LOGS.d", "Readme.TXT", "lower.low", "UPPER.UPP", "mIx.TXT"},
}
var fatDirPools = [][]string{
	{"D1", "SUB", "DIR.EXT"},
	{"folder", "LongDirectoryName", "Another Long Dir"},
}

type fatCfg struct {
	ftype       int
	size, start int64
	lss         int64
	tail        int64
}

func genFatCfg(r *core.Rng, tier string, t *core.Trace) {
	ft := core.PickOf(r, 12, 16, 32)
	var size int64
	switch ft {
	case 12:
		switch r.PickW(38, 28, 18, 9, 7) {
		case 4:
			// just below the sizes at which the cluster size doubles: the cluster count is at its largest there
			size = core.PickOf[int64](r, 8, 16, 32, 64, 128)<<20 - 512*r.Range(1, 64)
		case 0:
			size = r.Range(16, 200) << 10
		case 1:
			size = core.PickOf[int64](r, 512<<10, 1440<<10, 2<<20, 2<<20+512, 4<<20, 4<<20+1024)
		case 2:
			size = r.Range(1, 8)<<20 - 512*r.Range(0, 40)
		case 3:
			size = core.PickOf[int64](r, 16<<20, 32<<20, 33<<20, 64<<20, 100<<20)
		}
	case 16:
		switch r.PickW(60, 30, 10) {
		case 0:
			size = r.Range(4300, 9000) << 10
		case 1:
			size = core.PickOf[int64](r, 16<<20, 32<<20, 33<<20) + 512*r.Range(0, 7)
		case 2:
			size = core.PickOf[int64](r, 128<<20, 129<<20, 512<<20, 1<<30, 2<<30)
		}
	case 32:
		switch r.PickW(52, 28, 10, 5, 5) {
		case 4:
			// more than 65536 clusters on a volume small enough to be filled: cluster numbers beyond 16 bits
			size = r.Range(34, 40) << 20
		case 0:
			size = r.Range(100, 1500) << 10
		case 1:
			size = r.Range(1, 12)<<20 + 512*r.Range(0, 9)
		case 2:
			size = core.PickOf[int64](r, 260<<20, 261<<20, 300<<20)
		case 3:
			size = core.PickOf[int64](r, 8<<30, 9<<30, 40<<30)
		}
	}
	if tier == "quick" && size > 64<<20 && r.Chance(70) {
		size = r.Range(1, 6) << 20
		if ft == 16 {
			size = r.Range(4300, 6000) << 10
		}
	}
	t.Cfg["ftype"] = int64(ft)
	t.Cfg["size"] = size
	t.Cfg["start"] = core.PickOf[int64](r, 0, 512, 1<<20, 5<<30, 0, 1<<20)
	lss := int64(512)
	if ft == 32 && r.Chance(20) {
		lss = 4096
		t.Cfg["size"] = (size/4096 + 9) * 4096
	}
	t.Cfg["lss"] = lss
	if r.Chance(50) {
		t.CfgS["label"] = core.PickOf(r, "MYVOL", "a", "elevenchars", "LABEL WITH SP", "")
	}
}

// genFatHistory draws a history over a small path alphabet so that collisions are frequent.
func genFatHistory(r *core.Rng, tier string, idx int) *core.Trace {
	t := &core.Trace{Cfg: map[string]int64{}, CfgS: map[string]string{}}
	genFatCfg(r, tier, t)
	pool := r.PickW(40, 35, 10, 15)
	dpool := r.Intn(2)
	names := fatNamePools[pool]
	dirs := fatDirPools[dpool]
	held := r.Chance(35)
	heldW := 10
	if held {
		heldW = 24 // histories with handles that stay open across other operations on the same directory
	}
	nops := 1 + r.Intn(40)
	if tier == "thorough" {
		nops = 1 + r.Intn(160)
	}
	if r.Chance(30) {
		nops = 1 + r.Intn(6)
	}
	// candidate directories: root, d, d/e
	dirPaths := []string{"", dirs[0], dirs[1], dirs[0] + "/" + dirs[2]}
	pickDir := func() string { return dirPaths[r.PickW(50, 25, 10, 15)] }
	pickFile := func() string {
		d := pickDir()
		n := names[r.Intn(len(names))]
		if d == "" {
			return "/" + n
		}
		return "/" + d + "/" + n
	}
	sizes := func() int64 {
		cl := int64(512)
		switch r.PickW(10, 10, 25, 25, 20, 10) {
		case 0:
			return 0
		case 1:
			return 1
		case 2:
			return cl*r.Range(1, 4) + r.Range(-1, 1)
		case 3:
			return r.Range(1, 5000)
		case 4:
			return core.PickOf[int64](r, 1024, 2048, 4096, 8192, 16384, 32768) + r.Range(-1, 1)
		default:
			return r.Range(20000, 200000)
		}
	}
	for i := 0; i < nops; i++ {
		switch r.PickW(10, 12, 22, 8, 6, 8, 9, 5, 4, 3, 3, heldW) {
		case 0:
			d := dirPaths[1+r.Intn(3)]
			t.Ops = append(t.Ops, core.Op{K: "mkdir", P: "/" + d})
		case 1:
			t.Ops = append(t.Ops, core.Op{K: "create", P: pickFile()})
		case 2:
			t.Ops = append(t.Ops, core.Op{K: "write", P: pickFile(), A: int64(r.PickW(30, 25, 30, 15)), B: sizes(), C: int64(r.U64() >> 2), D: r.Range(1, 3000)})
		case 3:
			t.Ops = append(t.Ops, core.Op{K: "append", P: pickFile(), B: sizes(), C: int64(r.U64() >> 2)})
		case 4:
			t.Ops = append(t.Ops, core.Op{K: "trunc", P: pickFile(), B: sizes(), C: int64(r.U64() >> 2)})
		case 5:
			p := pickFile()
			q := "/" + strings.TrimPrefix(parentOf(p)+"/", "/") + names[r.Intn(len(names))]
			t.Ops = append(t.Ops, core.Op{K: "rename", P: p, Q: q})
		case 6:
			if r.Chance(20) {
				t.Ops = append(t.Ops, core.Op{K: "remove", P: "/" + dirPaths[1+r.Intn(3)]})
			} else {
				t.Ops = append(t.Ops, core.Op{K: "remove", P: pickFile()})
			}
		case 7:
			t.Ops = append(t.Ops, core.Op{K: "reopen", A: int64(r.Intn(2))})
		case 8:
			t.Ops = append(t.Ops, core.Op{K: "fill", A: int64(r.Intn(3)), B: r.Range(1, 3)})
		case 9:
			t.Ops = append(t.Ops, core.Op{K: "empty", A: int64(r.Intn(2))})
		case 10:
			t.Ops = append(t.Ops, core.Op{K: "fill", A: int64(r.Intn(3)), B: r.Range(1, 3)}, core.Op{K: "empty", A: int64(r.Intn(2))}, core.Op{K: "fill", A: int64(r.Intn(2)), B: 1})
		case 11:
			if held {
				switch r.Intn(4) {
				case 0:
					t.Ops = append(t.Ops, core.Op{K: "hopen", P: pickFile(), A: int64(r.Intn(3))})
				case 1:
					t.Ops = append(t.Ops, core.Op{K: "hwrite", A: int64(r.Intn(3)), B: sizes(), C: int64(r.U64() >> 2), D: int64(r.PickW(30, 25, 30, 15))})
				case 2:
					t.Ops = append(t.Ops, core.Op{K: "hread", A: int64(r.Intn(3))})
				case 3:
					t.Ops = append(t.Ops, core.Op{K: "hclose", A: int64(r.Intn(3))})
				}
			} else {
				t.Ops = append(t.Ops, core.Op{K: "create", P: pickFile()})
			}
		}
	}
	if r.Chance(12) {
		// at the end: remove everything, then the volume must take as much as a freshly made one
		t.Ops = append(t.Ops, core.Op{K: "drainfill"})
	}
	return t
}

// ---------------------------------------------------------------- executor

type fatFS interface {
	filesystem.FileSystem
}

func fatCreate(d *simdisk.Disk, ft int, size, start, lss int64, label string, repro bool) (fatFS, error) {
	switch ft {
	case 12:
		return fat12.Create(d, size, start, lss, label, repro)
	case 16:
		return fat16.Create(d, size, start, lss, label, repro)
	default:
		return fat32.Create(d, size, start, lss, label, repro)
	}
}

func fatRead(d *simdisk.Disk, ft int, size, start, lss int64) (fatFS, error) {
	switch ft {
	case 12:
		return fat12.Read(d, size, start, lss)
	case 16:
		return fat16.Read(d, size, start, lss)
	default:
		return fat32.Read(d, size, start, lss)
	}
}

func fatReadB(b backend.Storage, ft int, size, start, lss int64) (fatFS, error) {
	switch ft {
	case 12:
		return fat12.Read(b, size, start, lss)
	case 16:
		return fat16.Read(b, size, start, lss)
	default:
		return fat32.Read(b, size, start, lss)
	}
}

type fatRun struct {
	t     *core.Trace
	res   *core.Result
	prop  string
	d     *simdisk.Disk
	fs    fatFS
	m     *treeModel
	ft    int
	size  int64
	start int64
	lss   int64
	opIdx int
	trig  string
	locus string
	// (stale: the file was changed through another handle since this one was opened or last wrote; what such a
	// handle then reads is not covered by the statement - what it writes is)
	held [3]struct {
		stale bool
		f     filesystem.File
		path  string
	}
	firstFill      int64
	emptied        bool
	otherSinceFill bool
	fillSeq        int
	lastErr        bool
	histHash       uint64
	mutated        bool
}

func (x *fatRun) want(clause string) bool { return strings.HasPrefix(clause, x.prop+".") }

func (x *fatRun) viol(clause, detail string) *core.Violation {
	return &core.Violation{Clause: clause, Trigger: x.trig, Locus: x.locus, Detail: detail, OpIndex: x.opIdx}
}

// vpath converts "/a/b" to fs.ValidPath form.
func vpath(p string) string {
	p = strings.Trim(p, "/")
	if p == "" {
		return "."
	}
	return p
}

// call runs a library call, converting a panic into a violation of the current property.
func (x *fatRun) call(f func()) *core.Violation {
	if pk, pv, loc, st := core.Guard(f); pk {
		if x.want(x.prop + ".panic") {
			return &core.Violation{Clause: x.prop + ".panic", Trigger: x.trig + ":" + core.PanicClass(pv), Locus: loc, Detail: fmt.Sprintf("panic: %v\n%s", pv, firstLinesOf(st, 14)), OpIndex: x.opIdx}
		}
		return &core.Violation{Clause: "other.panic", Trigger: x.trig, Locus: loc, OpIndex: x.opIdx}
	}
	return nil
}

func firstLinesOf(s string, n int) string {
	l := strings.Split(s, "\n")
	if len(l) > n {
		l = l[:n]
	}
	return strings.Join(l, "\n")
}

// compare checks the live (or reopened) filesystem against the model. Returns the first difference.
func (x *fatRun) compare(fs fatFS, phase string) *core.Violation {
	m := x.m
	for _, p := range m.paths() {
		n := m.nodes[p]
		if !n.dir {
			continue
		}
		var ents []os.DirEntry
		var err error
		if v := x.call(func() { ents, err = fs.ReadDir(vpath(p)) }); v != nil {
			return v
		}
		if err != nil {
			return x.viol("C01."+phase+"listing", fmt.Sprintf("ReadDir(%q) failed: %v", vpath(p), err))
		}
		got := map[string]bool{}
		for _, e := range ents {
			got[e.Name()+kindSuffix(e.IsDir())] = true
		}
		wantSet := map[string]bool{}
		tainted := map[string]bool{}
		for _, c := range m.children(p) {
			cn := m.nodes[c]
			if cn.tainted {
				tainted[strings.ToLower(cn.name)] = true
				continue
			}
			wantSet[cn.name+kindSuffix(cn.dir)] = true
		}
		for g := range got {
			if tainted[strings.ToLower(strings.TrimSuffix(g, "/"))] {
				delete(got, g)
			}
		}
		if !sameSet(got, wantSet) {
			return x.viol("C01."+phase+"listing", fmt.Sprintf("directory %q lists %v, reference tree has %v", "/"+p, keys(got), keys(wantSet)))
		}
		for _, e := range ents {
			if e.IsDir() {
				continue
			}
			cp := strings.Trim(p+"/"+e.Name(), "/")
			cn := m.get(cp)
			if cn == nil || cn.tainted {
				continue
			}
			var info os.FileInfo
			if v := x.call(func() { info, err = e.Info() }); v != nil {
				return v
			}
			if err == nil && info.Size() != int64(len(cn.data)) {
				return x.viol("C01."+phase+"size", fmt.Sprintf("%q: listed size %d, reference %d", "/"+cp, info.Size(), len(cn.data)))
			}
		}
	}
	nfiles := 0
	for _, n := range m.nodes {
		if !n.dir {
			nfiles++
		}
	}
	stride := nfiles/40 + 1
	fi := 0
	for _, p := range m.paths() {
		n := m.nodes[p]
		if n.dir || n.tainted {
			continue
		}
		fi++
		if stride > 1 && (fi+x.opIdx)%stride != 0 && !strings.HasPrefix(p, "fill/") == false {
			continue // large trees: a rotating sample of the fill files, every other file always
		}
		var data []byte
		var err error
		if v := x.call(func() { data, err = fs.ReadFile("/" + strings.Trim(parentOf(p)+"/"+n.name, "/")) }); v != nil {
			return v
		}
		if err != nil {
			return x.viol("C01."+phase+"content", fmt.Sprintf("ReadFile(%q) failed: %v", "/"+p, err))
		}
		if !bytes.Equal(data, n.data) {
			return x.viol("C01."+phase+"content", fmt.Sprintf("%q: %s", "/"+p, diffDesc(data, n.data)))
		}
	}
	return nil
}

func kindSuffix(dir bool) string {
	if dir {
		return "/"
	}
	return ""
}
func sameSet(a, b map[string]bool) bool {
	if len(a) != len(b) {
		return false
	}
	for k := range a {
		if !b[k] {
			return false
		}
	}
	return true
}
func keys(m map[string]bool) []string {
	var s []string
	for k := range m {
		s = append(s, k)
	}
	sort.Strings(s)
	return s
}
func diffDesc(got, want []byte) string {
	if len(got) != len(want) {
		n := len(got)
		if len(want) < n {
			n = len(want)
		}
		first := -1
		for i := 0; i < n; i++ {
			if got[i] != want[i] {
				first = i
				break
			}
		}
		return fmt.Sprintf("read %d bytes, reference has %d (first differing byte %d)", len(got), len(want), first)
	}
	for i := range got {
		if got[i] != want[i] {
			// classify: stale vs zero
			return fmt.Sprintf("byte %d of %d differs: read %#02x, reference %#02x", i, len(got), got[i], want[i])
		}
	}
	return "equal"
}

// resync brings the model in line with what the library reports for path p after an errored call.
func (x *fatRun) resync(p string) {
	par := x.m.get(parentOf(p))
	if par == nil || !par.dir {
		return
	}
	var ents []os.DirEntry
	var err error
	if pk, _, _, _ := core.Guard(func() { ents, err = x.fs.ReadDir(vpath(parentOf(p))) }); pk || err != nil {
		if n := x.m.get(p); n != nil {
			n.tainted = true
		}
		return
	}
	var found os.DirEntry
	for _, e := range ents {
		if strings.EqualFold(e.Name(), baseOf(p)) {
			found = e
		}
	}
	n := x.m.get(p)
	if found == nil {
		if n != nil && !n.dir {
			x.m.del(p)
		}
		return
	}
	if found.IsDir() {
		if n == nil {
			x.m.put(strings.Trim(parentOf(p)+"/"+found.Name(), "/"), &mnode{dir: true})
		}
		return
	}
	var data []byte
	pk, _, _, _ := core.Guard(func() { data, err = x.fs.ReadFile("/" + strings.Trim(parentOf(p)+"/"+found.Name(), "/")) })
	if n == nil {
		n = &mnode{}
		x.m.put(strings.Trim(parentOf(p)+"/"+found.Name(), "/"), n)
	}
	info, ierr := found.Info()
	if pk || err != nil || ierr != nil || info.Size() != int64(len(data)) {
		n.tainted = true
		return
	}
	n.data = data
}

// writeVia performs seek+write (+ same-handle read back) through f and updates the model.
func (x *fatRun) writeVia(f filesystem.File, p string, off int64, data []byte, appendMode bool) *core.Violation {
	n := x.m.get(p)
	var err error
	var wn int
	if v := x.call(func() {
		if !appendMode {
			_, err = f.Seek(off, io.SeekStart)
			if err != nil {
				return
			}
		}
		wn, err = f.Write(data)
	}); v != nil {
		return v
	}
	if err != nil {
		x.lastErr = true
		x.res.Probe("op-refused")
		if strings.Contains(err.Error(), "no space") {
			x.res.Fault("full")
		}
		x.resync(p)
		return nil
	}
	if wn != len(data) {
		return x.viol("C01.write-count", fmt.Sprintf("Write returned n=%d err=nil for %d bytes", wn, len(data)))
	}
	n.data = applyWrite(n.data, off, data)
	x.mutated = true
	if n.tainted {
		return nil
	}
	// read back through the same handle
	var back []byte
	if v := x.call(func() {
		if _, err = f.Seek(0, io.SeekStart); err != nil {
			return
		}
		back, err = io.ReadAll(f)
	}); v != nil {
		return v
	}
	if err != nil {
		return x.viol("C01.same-handle-readback", fmt.Sprintf("%q: read back through the writing handle failed: %v", p, err))
	}
	if !bytes.Equal(back, n.data) && x.want("C01.same-handle-readback") {
		return x.viol("C01.same-handle-readback", fmt.Sprintf("%q after write(off=%d,len=%d): %s", p, off, len(data), diffDesc(back, n.data)))
	}
	return nil
}

func offClass(mode int64) string {
	return [...]string{"start", "inside", "eof", "eof+gap"}[mode&3]
}

func (x *fatRun) offsetFor(mode int64, cur int64, gap int64) int64 {
	switch mode & 3 {
	case 0:
		return 0
	case 1:
		return cur / 2
	case 2:
		return cur
	}
	return cur + gap
}

func (x *fatRun) dropHandles(p string) {
	for i := range x.held {
		if x.held[i].f != nil && (p == "" || strings.EqualFold(x.held[i].path, p)) {
			core.Guard(func() { x.held[i].f.Close() })
			x.held[i].f = nil
		}
	}
}

// step executes one op. Ops whose preconditions fail in the model are skipped.
func (x *fatRun) step(o core.Op) *core.Violation {
	m := x.m
	x.lastErr = false
	if o.K != "fill" && o.K != "empty" && o.K != "reopen" && o.K != "hread" && o.K != "hclose" && o.K != "drainfill" {
		x.otherSinceFill = true
	}
	lib := "filesystem/fat12"
	switch o.K {
	case "mkdir":
		par := m.get(parentOf(o.P))
		if par == nil || !par.dir || par.tainted {
			return nil
		}
		if n := m.get(o.P); n != nil && !n.dir {
			return nil
		}
		x.trig, x.locus = "mkdir", lib+".(*FileSystem).Mkdir"
		var err error
		if v := x.call(func() { err = x.fs.Mkdir(o.P) }); v != nil {
			return v
		}
		if err != nil {
			x.lastErr = true
			x.res.Probe("op-refused")
			x.resync(o.P)
			return nil
		}
		if m.get(o.P) == nil {
			m.put(o.P, &mnode{dir: true})
			x.mutated = true
		}
	case "create":
		par := m.get(parentOf(o.P))
		if par == nil || !par.dir || par.tainted {
			return nil
		}
		if n := m.get(o.P); n != nil && (n.dir || n.tainted) {
			return nil
		}
		x.trig, x.locus = "create", lib+".(*FileSystem).OpenFile"
		var err error
		var f filesystem.File
		if v := x.call(func() {
			f, err = x.fs.OpenFile(o.P, os.O_CREATE|os.O_RDWR)
			if err == nil {
				f.Close()
			}
		}); v != nil {
			return v
		}
		if err != nil {
			x.lastErr = true
			x.res.Probe("op-refused")
			x.resync(o.P)
			return nil
		}
		if m.get(o.P) == nil {
			m.put(o.P, &mnode{})
			x.mutated = true
		}
	case "write", "append", "trunc":
		n := m.get(o.P)
		if n == nil || n.dir || n.tainted {
			return nil
		}
		if o.B < 0 {
			o.B = 0
		}
		if o.B > 4<<20 {
			o.B = 4 << 20
		}
		if x.size > 256<<20 && o.B > 65536 {
			o.B = 65536
		}
		data := core.PatternBytes(uint64(o.C)+uint64(x.opIdx), o.B)
		flag := os.O_RDWR
		off := x.offsetFor(o.A, int64(len(n.data)), o.D)
		switch o.K {
		case "write":
			x.trig = "write(" + offClass(o.A) + ")"
		case "append":
			x.trig = "append"
			flag |= os.O_APPEND
			off = int64(len(n.data))
		case "trunc":
			x.trig = "trunc"
			flag |= os.O_TRUNC
			off = 0
		}
		if len(data) == 0 {
			x.trig += "[len0]"
		}
		x.locus = lib + ".(*File).Write"
		var f filesystem.File
		var err error
		if v := x.call(func() { f, err = x.fs.OpenFile(o.P, flag) }); v != nil {
			return v
		}
		if err != nil {
			x.lastErr = true
			x.res.Probe("op-refused")
			x.resync(o.P)
			return nil
		}
		if o.K == "trunc" {
			n.data = nil
			x.mutated = true
			x.dropHandles(o.P)
		}
		for i := range x.held {
			if x.held[i].f != nil && strings.EqualFold(x.held[i].path, o.P) {
				x.held[i].stale = true
			}
		}
		v := x.writeVia(f, o.P, off, data, o.K == "append")
		core.Guard(func() { f.Close() })
		if v != nil {
			return v
		}
	case "rename":
		n := m.get(o.P)
		if n == nil || n.tainted || m.key(o.P) == m.key(o.Q) || m.key(parentOf(o.P)) != m.key(parentOf(o.Q)) {
			return nil
		}
		q := m.get(o.Q)
		if q != nil && (q.dir || n.dir || q.tainted) {
			return nil
		}
		x.trig = "rename"
		if q != nil {
			x.trig = "rename(over)"
		}
		if n.dir {
			x.trig = "rename(dir)"
		}
		x.locus = lib + ".(*FileSystem).Rename"
		x.dropHandles(o.P)
		x.dropHandles(o.Q)
		var err error
		if v := x.call(func() { err = x.fs.Rename(o.P, o.Q) }); v != nil {
			return v
		}
		if err != nil {
			x.lastErr = true
			x.res.Probe("op-refused")
			x.resync(o.P)
			x.resync(o.Q)
			return nil
		}
		// move subtree
		oldK := m.key(o.P)
		newBase := strings.Trim(o.Q, "/")
		var moves [][2]string
		for k := range m.nodes {
			if k == oldK || strings.HasPrefix(k, oldK+"/") {
				moves = append(moves, [2]string{k, m.key(newBase) + k[len(oldK):]})
			}
		}
		moved := map[string]*mnode{}
		for _, mv := range moves {
			moved[mv[1]] = m.nodes[mv[0]]
			delete(m.nodes, mv[0])
		}
		for k, v := range moved {
			m.nodes[k] = v
		}
		m.nodes[m.key(newBase)].name = baseOf(o.Q)
		x.mutated = true
	case "remove":
		n := m.get(o.P)
		if n == nil || n.tainted || m.key(o.P) == "" {
			return nil
		}
		kids := m.children(o.P)
		x.trig = "remove(file)"
		if n.dir {
			x.trig = "remove(emptydir)"
			if len(kids) > 0 {
				x.trig = "remove(nonemptydir)"
			}
		}
		x.locus = lib + ".(*FileSystem).Remove"
		x.dropHandles(o.P)
		var err error
		if v := x.call(func() { err = x.fs.Remove(o.P) }); v != nil {
			return v
		}
		if err != nil {
			x.lastErr = true
			x.res.Probe("op-refused")
			if len(kids) == 0 {
				x.resync(o.P)
			}
			return nil
		}
		if len(kids) > 0 {
			return x.viol("C01.removed-nonempty-dir", fmt.Sprintf("Remove(%q) succeeded although the directory holds %v", o.P, kids))
		}
		m.del(o.P)
		x.mutated = true
	case "reopen":
		x.trig, x.locus = "reopen", lib+".Read"
		x.res.Probe("reopen")
		if o.A == 1 {
			x.dropHandles("")
			var nfs fatFS
			var err error
			if v := x.call(func() { nfs, err = fatRead(x.d, x.ft, x.size, x.start, x.lss) }); v != nil {
				return v
			}
			if err != nil {
				return x.viol("C01.reopen.open", "re-opening the image failed: "+err.Error())
			}
			x.fs = nfs
		}
	case "fill":
		// create files of B clusters each in /FILL until the filesystem refuses
		if n := m.get("/FILL"); n != nil && (!n.dir || n.tainted) {
			return nil
		}
		if x.size > 40<<20 {
			return nil // filling is for small volumes; large ones are there for the geometry clauses
		}
		x.trig, x.locus = "fill", lib+".(*FileSystem).allocateSpace"
		if m.get("/FILL") == nil {
			var err error
			if v := x.call(func() { err = x.fs.Mkdir("/FILL") }); v != nil {
				return v
			}
			if err != nil {
				x.lastErr = true
				x.resync("/FILL")
				return nil
			}
			m.put("/FILL", &mnode{dir: true})
		}
		// files already in /FILL that hold no data (left behind by an empty-by-truncate)
		emptyKids := int64(0)
		for _, c := range m.children("/FILL") {
			if cn := m.nodes[c]; cn != nil && !cn.dir && len(cn.data) == 0 {
				emptyKids++
			}
		}
		rep := indep.CheckFAT(x.d, x.start, x.size, x.ft)
		cl := rep.ClusterBytes
		if cl <= 0 {
			cl = 512
		}
		free := rep.Clusters - rep.UsedClusters
		if free < 0 {
			free = 0
		}
		if o.B < 1 {
			o.B = 1 // (a minimised trace may have dropped it)
		}
		perClusters := (free/100 + 1) * o.B
		per := cl * perClusters
		if o.A == 2 {
			per--
		}
		limit := 400
		var count int64
		for i := 0; i < limit; i++ {
			x.fillSeq++
			p := fmt.Sprintf("/FILL/F%05d.DAT", x.fillSeq)
			data := core.PatternBytes(uint64(x.fillSeq)*7919, per)
			var f filesystem.File
			var err error
			var wn int
			if v := x.call(func() {
				f, err = x.fs.OpenFile(p, os.O_CREATE|os.O_RDWR)
				if err == nil {
					wn, err = f.Write(data)
					f.Close()
				}
			}); v != nil {
				return v
			}
			if err != nil {
				x.lastErr = true
				x.res.Fault("full")
				x.res.Probe("fill-reached-refusal")
				x.resync(p)
				break
			}
			if wn != len(data) {
				return x.viol("C01.write-count", fmt.Sprintf("fill: Write returned %d of %d", wn, len(data)))
			}
			m.put(p, &mnode{data: data})
			count += perClusters
			x.mutated = true
		}
		if x.lastErr {
			// fill -> empty -> fill with nothing in between: the refill must reach the first capacity
			// (files emptied by truncation keep their directory entries, and the refill adds its own: allow for the directory's growth)
			// and in this library every file, also an empty one, owns one cluster: truncation releases all but the first
			slack := int64(8) + (emptyKids*64)/cl + 1 + emptyKids
			if x.firstFill > 0 && x.emptied && !x.otherSinceFill && count+perClusters+slack < x.firstFill && x.want("C01.space-not-reusable") {
				return x.viol("C01.space-not-reusable", fmt.Sprintf("first fill stored %d clusters before the volume refused, after removing them all a refill stored only %d clusters (file size %d clusters)", x.firstFill, count, perClusters))
			}
			x.firstFill, x.emptied, x.otherSinceFill = count, false, false
		} else {
			x.firstFill = 0
		}
	case "drainfill":
		// "space released by remove ... can be used again without limit": everything is removed, then the volume is
		// filled - and so is a freshly made volume of the same geometry. What went in before comes out again, so the
		// two take the same number of bytes (a FAT32 root directory that has grown keeps its clusters: allowed for).
		if x.size > 40<<20 {
			return nil
		}
		for _, n := range m.nodes {
			if n.tainted {
				return nil
			}
		}
		x.dropHandles("")
		x.trig, x.locus = "drainfill", lib+".(*FileSystem).Remove"
		paths := m.paths()
		sort.Slice(paths, func(i, j int) bool {
			if a, b := strings.Count(paths[i], "/"), strings.Count(paths[j], "/"); a != b {
				return a > b
			}
			return paths[i] < paths[j]
		})
		for _, k := range paths {
			if k == "" {
				continue
			}
			// the path as created (names keep their case)
			real := ""
			for q := k; q != ""; q = parentOf(q) {
				real = "/" + m.nodes[q].name + real
			}
			var err error
			if v := x.call(func() { err = x.fs.Remove(real) }); v != nil {
				return v
			}
			if err != nil {
				x.lastErr = true
				x.resync(real)
				return nil
			}
			delete(m.nodes, k)
			x.mutated = true
		}
		rep := indep.CheckFAT(x.d, x.start, x.size, x.ft)
		cl := rep.ClusterBytes
		if cl <= 0 || rep.Clusters <= 0 {
			return nil
		}
		big := (rep.Clusters/40 + 1) * cl
		fillAll := func(fs fatFS, record bool) (int64, *core.Violation) {
			var total int64
			var err error
			if v := x.call(func() { err = fs.Mkdir("/DRAIN") }); v != nil || err != nil {
				return -1, v
			}
			if record {
				m.put("/DRAIN", &mnode{dir: true})
			}
			seq := 0
			for _, per := range []int64{big, cl} {
				for i := 0; i < 700; i++ {
					seq++
					p := fmt.Sprintf("/DRAIN/D%05d.DAT", seq)
					data := core.PatternBytes(uint64(seq)*104729, per)
					var f filesystem.File
					var wn int
					if v := x.call(func() {
						f, err = fs.OpenFile(p, os.O_CREATE|os.O_RDWR)
						if err == nil {
							wn, err = f.Write(data)
							f.Close()
						}
					}); v != nil {
						return -1, v
					}
					if err != nil || wn != len(data) {
						// the refused file goes away again, so that what it may have taken is free for the smaller ones
						core.Guard(func() { _ = fs.Remove(p) })
						if record {
							x.lastErr = true
							x.res.Fault("full")
							x.resync(p)
						}
						break
					}
					total += per
					if record {
						m.put(p, &mnode{data: data})
						x.mutated = true
					}
				}
			}
			return total, nil
		}
		got, v := fillAll(x.fs, true)
		if v != nil || got < 0 {
			return v
		}
		d2 := simdisk.New(x.start + x.size + 4096)
		var fs2 fatFS
		var err error
		if v := x.call(func() { fs2, err = fatCreate(d2, x.ft, x.size, x.start, x.lss, x.t.Sg("label"), true) }); v != nil || err != nil {
			return v
		}
		fresh, v := fillAll(fs2, false)
		if v != nil || fresh < 0 {
			return v
		}
		x.res.Probe("drain-and-fill")
		slack := int64(0)
		if x.ft == 32 {
			slack = (int64(x.opIdx+1)*160/cl + 2) * cl
		}
		if got+slack < fresh && x.want("C01.space-not-reusable") {
			return x.viol("C01.space-not-reusable", fmt.Sprintf("after removing every file and directory the volume took %d bytes before refusing; a freshly made volume of the same geometry takes %d (cluster size %d)", got, fresh, cl))
		}
	case "empty":
		if n := m.get("/FILL"); n == nil || !n.dir {
			return nil
		}
		x.trig, x.locus = "empty", lib+".(*FileSystem).Remove"
		for _, c := range m.children("/FILL") {
			cn := m.nodes[c]
			if cn.tainted || cn.dir {
				continue
			}
			var err error
			p := "/FILL/" + cn.name
			if o.A == 1 {
				// release the space by a truncating open that writes nothing: the (now empty) files stay
				x.trig, x.locus = "empty(trunc)", lib+".(*FileSystem).OpenFile"
				x.dropHandles(p)
				if v := x.call(func() {
					var f filesystem.File
					f, err = x.fs.OpenFile(p, os.O_RDWR|os.O_TRUNC)
					if err == nil {
						err = f.Close()
					}
				}); v != nil {
					return v
				}
				if err != nil {
					x.lastErr = true
					x.resync(p)
					continue
				}
				cn.data = nil
				x.mutated = true
				continue
			}
			if v := x.call(func() { err = x.fs.Remove(p) }); v != nil {
				return v
			}
			if err != nil {
				x.lastErr = true
				x.resync(p)
				continue
			}
			m.del(p)
			x.mutated = true
		}
		x.res.Probe("empty")
		if o.A == 1 {
			x.res.Probe("empty-by-truncate")
		}
		if !x.otherSinceFill {
			x.emptied = true
		}
	case "hopen":
		n := m.get(o.P)
		slot := int(o.A % 3)
		if n == nil || n.dir || n.tainted || x.held[slot].f != nil {
			return nil
		}
		x.trig, x.locus = "hopen", lib+".(*FileSystem).OpenFile"
		var f filesystem.File
		var err error
		if v := x.call(func() { f, err = x.fs.OpenFile(o.P, os.O_RDWR) }); v != nil {
			return v
		}
		if err != nil {
			x.lastErr = true
			return nil
		}
		x.held[slot].f, x.held[slot].path, x.held[slot].stale = f, o.P, false
		x.res.Probe("held-handle")
	case "hwrite":
		slot := int(o.A % 3)
		if x.held[slot].f == nil {
			return nil
		}
		p := x.held[slot].path
		n := m.get(p)
		if n == nil || n.dir || n.tainted {
			return nil
		}
		if o.B < 0 {
			o.B = 0
		}
		if o.B > 1<<20 {
			o.B = 1 << 20
		}
		x.trig, x.locus = "hwrite("+offClass(o.D)+")", lib+".(*File).Write"
		data := core.PatternBytes(uint64(o.C)+uint64(x.opIdx), o.B)
		if len(data) == 0 && x.held[slot].stale {
			return nil // a write of nothing does not refresh the handle, and what a stale handle reads is not judged
		}
		off := x.offsetFor(o.D, int64(len(n.data)), 700)
		for i := range x.held {
			if i != slot && x.held[i].f != nil && strings.EqualFold(x.held[i].path, p) {
				x.held[i].stale = true
			}
		}
		if v := x.writeVia(x.held[slot].f, p, off, data, false); v != nil {
			return v
		}
		x.held[slot].stale = false
		x.res.Probe("write-through-older-handle")
	case "hread":
		slot := int(o.A % 3)
		if x.held[slot].f == nil {
			return nil
		}
		p := x.held[slot].path
		n := m.get(p)
		if n == nil || n.dir || n.tainted {
			return nil
		}
		if x.held[slot].stale {
			return nil
		}
		x.trig, x.locus = "hread", lib+".(*File).Read"
		var back []byte
		var err error
		if v := x.call(func() {
			if _, err = x.held[slot].f.Seek(0, io.SeekStart); err == nil {
				back, err = io.ReadAll(x.held[slot].f)
			}
		}); v != nil {
			return v
		}
		if err != nil || !bytes.Equal(back, n.data) {
			return x.viol("C01.held-handle-read", fmt.Sprintf("%q read through a handle opened earlier: err=%v %s", p, err, diffDesc(back, n.data)))
		}
	case "hclose":
		slot := int(o.A % 3)
		if x.held[slot].f != nil {
			core.Guard(func() { x.held[slot].f.Close() })
			x.held[slot].f = nil
		}
		return nil
	default:
		return nil
	}
	return nil
}

func (x *fatRun) clusterBytes() int64 {
	rep := indep.CheckFAT(x.d, x.start, x.size, x.ft)
	if rep.ClusterBytes > 0 {
		return rep.ClusterBytes
	}
	return 512
}

// fatOpHook, when set, is called before every operation of a FAT history (C14 injects clock jumps).
var fatOpHook func(i int)

// execFatHistory runs a FAT history and evaluates the clauses of property prop (C01, C08 or C03).
// It returns the final disk as well (C14 compares images).
func execFatHistory(t *core.Trace, prop string, repro bool) (*core.Result, *simdisk.Disk) {
	res := core.NewResult()
	ft := int(t.I("ftype"))
	if ft != 12 && ft != 16 && ft != 32 {
		ft = 12
	}
	size, start, lss := t.I("size"), t.I("start"), t.I("lss")
	if lss != 4096 || ft != 32 {
		lss = 512
	}
	if size < 2048 {
		size = 2048
	}
	if start < 0 {
		start = 0
	}
	tail := int64(1 << 20)
	d := simdisk.New(start + size + tail)
	// guard bands: noise before and after the range
	if start > 0 {
		nb := start
		if nb > 1<<20 {
			nb = 1 << 20
		}
		d.FillNoise(start-nb, nb, t.Seed^0xabc)
	}
	d.FillNoise(start+size, tail, t.Seed^0xdef)
	// stale bytes inside the range (a previous owner's data)
	if t.I("stale") == 1 || (t.I("stale") == 0 && (t.Seed>>7)&3 == 0) {
		n := size
		if n > 4<<20 {
			n = 4 << 20
		}
		d.FillNoise(start, n, t.Seed^0x5a5a)
	}
	x := &fatRun{t: t, res: res, prop: prop, d: d, m: newTree(true), ft: ft, size: size, start: start, lss: lss, opIdx: -1}
	x.trig, x.locus = "create-fs", fmt.Sprintf("filesystem/fat%d.Create", ft)
	d.SetGuard(simdisk.Extent{Off: start, Len: size})
	guardCheck := func() *core.Violation {
		if d.GuardHit != nil && x.want("C03.fs-write-outside-range") {
			g := d.GuardHit
			return &core.Violation{Clause: "C03.fs-write-outside-range", Trigger: fmt.Sprintf("fat%d:%s", ft, x.trig), Locus: g.Locus, OpIndex: x.opIdx,
				Detail: fmt.Sprintf("FAT%d volume was given [%d,+%d) but wrote [%d,+%d) (%d bytes past its end)", ft, start, size, g.Off, g.Len, g.Off+g.Len-(start+size))}
		}
		if d.BeyondEnd != nil && x.want("C03.fs-write-outside-range") {
			g := d.BeyondEnd
			return &core.Violation{Clause: "C03.fs-write-outside-range", Trigger: fmt.Sprintf("fat%d:%s", ft, x.trig), Locus: g.Locus, OpIndex: x.opIdx,
				Detail: fmt.Sprintf("write at [%d,+%d) beyond the end of the device", g.Off, g.Len)}
		}
		return nil
	}
	var fs fatFS
	var err error
	if v := x.call(func() { fs, err = fatCreate(d, ft, size, start, lss, t.Sg("label"), repro) }); v != nil {
		if v.Clause != "other.panic" {
			res.V = v
		}
		return res, d
	}
	if v := guardCheck(); v != nil {
		res.V = v
		return res, d
	}
	if err != nil {
		res.Evals = 1
		res.Sample = fmt.Sprintf("fat%d Create(size=%d) refused: %v", ft, size, err)
		res.Probe("create-refused")
		return res, d
	}
	x.fs = fs
	res.Probe(fmt.Sprintf("fat%d", ft))
	if start >= 4<<30 {
		res.Probe("start-beyond-4GiB")
	}
	structural := func() *core.Violation {
		if !x.want("C08.x") {
			return nil
		}
		rep := indep.CheckFAT(d, start, size, ft)
		if len(rep.Problems) > 0 {
			p := rep.Problems[0]
			return &core.Violation{Clause: "C08." + p.Class, Trigger: fmt.Sprintf("fat%d:%s", ft, x.trig), Locus: x.locus, OpIndex: x.opIdx,
				Detail: fmt.Sprintf("independent FAT reader after %s: %s (volume %d bytes at %d, %d clusters of %d bytes; %d problems)", x.trig, p.Detail, size, start, rep.Clusters, rep.ClusterBytes, len(rep.Problems))}
		}
		return nil
	}
	if v := structural(); v != nil {
		res.V = v
		return res, d
	}
	hist := core.HashStr(fmt.Sprintf("fat%d", ft))
	for i, o := range t.Ops {
		x.opIdx = i
		x.trig, x.locus = o.K, "filesystem/fat12"
		if fatOpHook != nil {
			fatOpHook(i)
		}
		before := x.mutated
		x.mutated = false
		v := x.step(o)
		res.Steps++
		if v == nil {
			v = guardCheck()
		}
		if v != nil && v.Clause == "other.panic" {
			// a panic outside this property's clauses ends the run quietly
			break
		}
		if v != nil && !x.want(v.Clause) {
			v = nil
		}
		if v == nil {
			v = structural()
		}
		if v == nil && x.want("C01.x") {
			phase := ""
			if x.lastErr {
				phase = "after-error."
			}
			v = x.compare(x.fs, phase)
			if v == nil && (o.K == "reopen" || i == len(t.Ops)-1 || i%5 == 4) {
				var nfs fatFS
				var err error
				clone := d.Clone()
				if pv := x.call(func() { nfs, err = fatRead(clone, ft, size, start, lss) }); pv != nil {
					v = pv
				} else if err != nil {
					v = x.viol("C01.reopen.open", "re-opening the image from its bytes failed: "+err.Error())
				} else {
					v = x.compare(nfs, "reopen.")
				}
			}
		}
		if v != nil && x.want(v.Clause) {
			res.V = v
			return res, d
		}
		if x.lastErr {
			hist = core.Mix(hist, core.HashStr(o.K), 1)
		} else {
			hist = core.Mix(hist, core.HashStr(x.trig), 0)
		}
		x.mutated = x.mutated || before
	}
	x.dropHandles("")
	res.DevOps = d.St.Reads + d.St.Writes
	res.Evals = 1
	if x.mutated {
		res.Hashes = append(res.Hashes, hist)
	}
	res.Sample = t.Summary()
	return res, d
}
