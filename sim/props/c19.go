package props

import (
	"fmt"
	iofs "io/fs"
	"os"
	"path/filepath"
	"reflect"
	"sort"
	"strings"
	"time"

	"dsim/core"
	"dsim/simdisk"

	"github.com/diskfs/go-diskfs/filesystem"
	"github.com/diskfs/go-diskfs/filesystem/iso9660"
	"github.com/diskfs/go-diskfs/filesystem/squashfs"
)

// C19 — File metadata survives being written into an image.
//
// Four workloads: (ext4) attribute-biased histories through the API with reopen - shared
// executor with C04; (fat) histories of Chtimes / SetHidden / SetSystem / SetReadOnly /
// SetArchiveBit interleaved with content writes, with reopen; (squashfs, iso-rr) workspace files
// whose mode, owner, times and link targets the harness sets explicitly, then Finalize and read.
// The last two have no fault or history dimension: they are input-driven and said so.
type c19 struct{}

func init() { core.Register(c19{}) }

func (c19) ID() string    { return "C19" }
func (c19) Level() string { return "exploration" }
func (c19) Rule() string {
	return "one evaluation = one seeded run of: (ext4) a history biased to Chmod (all 12 bits), Chown (0, 65535, 65536, 2^32-2, -1=keep), Chtimes (1901..2100, nanoseconds) and Symlink (1..1000 bytes, 59/60/61) interleaved with writes, compared live and after reopen; (fat) a history of Chtimes (1980..2107, odd seconds), SetHidden/SetSystem/SetReadOnly/SetArchiveBit interleaved with writes on several entries, all attributes of all entries compared after every step on a reopened image; (squashfs, iso9660 Rock Ridge) a workspace whose entries get seeded modes incl. setuid/setgid/sticky, uids/gids over the 16/32-bit ranges, mtimes before 1970 (Rock Ridge; squashfs stores unsigned seconds, so 1970..2106 there) and after 2038 and symlink targets of 1..4095 bytes (one long component, or path-like with '.', '..' and 100/255-byte components, relative and absolute), finalized and read back with Stat/Readlink/Sys; distinct = distinct (workload, attribute value classes); non-trivial = at least one attribute set to a non-default value"
}
func (c19) Assumptions() []string {
	return []string{
		"FAT: only the modification time is exposed by Stat; it is compared to the documented 2-second resolution (rounded down); attribute flags are read back through a freshly opened handle and GetArchiveBit",
		"squashfs/ISO Rock Ridge parts are input-driven (no fault, schedule or history dimension); we run as uid 0 so that Lchown works",
		"uid/gid larger than the format can hold are outside the domain (squashfs: 32 bit; Rock Ridge: 32 bit)",
	}
}
func (c19) Components() map[string][]string {
	return map[string][]string{
		"real": {"filesystem/ext4 Chmod/Chown/Chtimes/Symlink/ReadLink/Stat", "filesystem/fat12,16,32 Chtimes, File.SetHidden/SetSystem/SetReadOnly, SetArchiveBit/GetArchiveBit, Stat", "filesystem/squashfs and iso9660 (Rock Ridge) Finalize + Stat/Readlink/Sys"},
		"stub": {"block device (SimDisk)", "host scratch directory as workspace with explicitly set metadata"},
	}
}
func (c19) ProbeNames() []string {
	return []string{"wl-ext4", "wl-fat", "wl-squashfs", "wl-isorr", "special-bits", "uid-over-16bit", "time-pre-1970", "time-post-2038", "long-symlink", "id-table-over-one-block", "relocated-directory", "fat-flag-change", "fat-time-change", "reopen"}
}
func (c19) Budget(tier string) (int, int, int) {
	if tier == "thorough" {
		return 900, 1 << 30, 600
	}
	return 50, 1 << 30, 180
}

var c19Workloads = []string{"ext4", "fat", "squashfs", "isorr"}

func (c19) Gen(r *core.Rng, tier string, idx int) *core.Trace {
	wl := c19Workloads[idx%len(c19Workloads)]
	var t *core.Trace
	switch wl {
	case "ext4":
		t = genExt4History(r, tier, idx, false)
		// bias towards attribute operations: turn half of the removes/creates into attribute ops
		ids := []int64{0, 1, 1000, 65535, 65536, 1<<32 - 2, -1}
		ts := []int64{0, 1, -1, 86400 * 365 * 30, 2147483647, 2147483648, 4102444800, -2147483648, 1700000000, 6442450944, 8589934591, 8589934592, 10737418240, 11811160064, 12884901887, 12884901888, 15032385535}
		for i := range t.Ops {
			o := &t.Ops[i]
			if (o.K == "remove" || o.K == "create" || o.K == "reopen") && r.Chance(50) {
				switch r.Intn(3) {
				case 0:
					*o = core.Op{K: "chmod", P: o.P, A: int64(r.Intn(0o10000))}
				case 1:
					*o = core.Op{K: "chown", P: o.P, A: ids[r.Intn(len(ids))], B: ids[r.Intn(len(ids))]}
				case 2:
					*o = core.Op{K: "chtimes", P: o.P, A: ts[r.Intn(len(ts))], B: ts[r.Intn(len(ts))], C: ts[r.Intn(len(ts))], D: r.Range(0, 999999999)}
				}
			}
		}
	case "fat":
		t = &core.Trace{Cfg: map[string]int64{}, CfgS: map[string]string{}}
		genFatCfg(r, tier, t)
		if t.I("size") > 64<<20 {
			t.Cfg["size"] = 8 << 20
			if t.I("ftype") == 16 {
				t.Cfg["size"] = 6 << 20
			}
		}
		n := 2 + r.Intn(20)
		files := []string{"/A.TXT", "/DIR/B.BIN", "/long file name.text", "/DIR", "/REPORT.TXT", "/REPORT.DAT", "/DIR/B.TXT"} // (files that share their base name and differ in the extension among them)
		for i := 0; i < n; i++ {
			p := files[r.Intn(len(files))]
			switch r.PickW(25, 15, 15, 15, 15, 10, 5) {
			case 0:
				// FAT times: 1980..2107
				t.Ops = append(t.Ops, core.Op{K: "chtimes", P: p, A: core.PickOf[int64](r, 315532800, 315532801, 1700000001, 1700000000, 4354819199, 4354819198, 946684799, r.Range(315532800, 4354819199))})
			case 1:
				t.Ops = append(t.Ops, core.Op{K: "hidden", P: p, A: int64(r.Intn(2))})
			case 2:
				t.Ops = append(t.Ops, core.Op{K: "system", P: p, A: int64(r.Intn(2))})
			case 3:
				t.Ops = append(t.Ops, core.Op{K: "readonly", P: p, A: int64(r.Intn(2))})
			case 4:
				t.Ops = append(t.Ops, core.Op{K: "archive", P: p, A: int64(r.Intn(2))})
			case 5:
				t.Ops = append(t.Ops, core.Op{K: "write", P: p, B: r.Range(1, 5000), C: int64(r.U64() >> 2)})
			case 6:
				t.Ops = append(t.Ops, core.Op{K: "reopen"})
			}
		}
	default:
		t = &core.Trace{Cfg: map[string]int64{}, CfgS: map[string]string{}}
		t.Cfg["tag"] = int64(r.U64() >> 2)
		t.Cfg["n"] = r.Range(1, 8)
		t.Cfg["sqcomp"] = int64(r.PickW(32, 2, 32, 32)) // xz is two orders of magnitude slower and irrelevant to metadata: rare
		// the process's local time zone, in quarter hours east of UTC (the workspace's times are read in it)
		t.Cfg["tz"] = core.PickOf[int64](r, 0, 0, -20, 22, -38, 52, -48, 56, 1, -1, r.Range(-48, 56))
		if wl == "squashfs" && r.Chance(4) {
			// more distinct owners and groups than one metadata block of the id table holds (2048)
			t.Cfg["manyids"] = 1
		}
	}
	t.CfgS["wl"] = wl
	return t
}

func (p c19) Exec(t *core.Trace) *core.Result {
	var res *core.Result
	switch t.Sg("wl") {
	case "ext4":
		res, _ = execExt4History(t, "C19")
	case "fat":
		res = execFatAttrs(t)
	case "squashfs", "isorr":
		res = execWorkspaceMeta(t)
	default:
		res = core.NewResult()
		res.Evals = 1
	}
	res.Probe("wl-" + t.Sg("wl"))
	return res
}

// ---------------------------------------------------------------- FAT attributes

type fatAttr struct {
	dir                               bool
	hidden, system, readonly, archive bool
	archiveKnown                      bool
	mtime                             time.Time
	mtimeKnown                        bool
}

func execFatAttrs(t *core.Trace) *core.Result {
	res := core.NewResult()
	ft := int(t.I("ftype"))
	if ft != 12 && ft != 16 && ft != 32 {
		ft = 32
	}
	size, start := t.I("size"), t.I("start")
	if size < 64<<10 {
		size = 64 << 10
	}
	if start < 0 {
		start = 0
	}
	d := simdisk.New(start + size + 4096)
	fs, err := fatCreate(d, ft, size, start, 512, "C19", false)
	if err != nil {
		res.Evals = 1
		res.Probe("create-refused")
		return res
	}
	fail := func(i int, clause, trig, detail string) *core.Result {
		res.V = &core.Violation{Clause: "C19." + clause, Trigger: fmt.Sprintf("fat:%s", trig), Locus: "filesystem/fat12", Detail: detail, OpIndex: i}
		return res
	}
	model := map[string]*fatAttr{}
	setup := func() error {
		if err := fs.Mkdir("/DIR"); err != nil {
			return err
		}
		model["/DIR"] = &fatAttr{dir: true}
		for _, p := range []string{"/A.TXT", "/DIR/B.BIN", "/long file name.text", "/REPORT.TXT", "/REPORT.DAT", "/DIR/B.TXT"} {
			f, err := fs.OpenFile(p, os.O_CREATE|os.O_RDWR)
			if err != nil {
				return err
			}
			f.Write([]byte("content of " + p))
			f.Close()
			model[p] = &fatAttr{}
		}
		return nil
	}
	if pk, pv, loc, _ := core.Guard(func() { err = setup() }); pk || err != nil {
		if pk {
			res.V = &core.Violation{Clause: "C19.panic", Trigger: "fat:setup", Locus: loc, Detail: fmt.Sprint(pv), OpIndex: -1}
		}
		res.Evals = 1
		return res
	}
	type flagger interface {
		SetHidden(bool) error
		SetSystem(bool) error
		SetReadOnly(bool) error
		IsHidden() bool
		IsSystem() bool
		IsReadOnly() bool
	}
	type archiver interface {
		SetArchiveBit(string, bool) error
		GetArchiveBit(string) (bool, error)
	}
	// verify every entry on a filesystem re-opened from the bytes
	verify := func(i int, trig string) *core.Result {
		rfs, err := fatRead(d.Clone(), ft, size, start, 512)
		if err != nil {
			return fail(i, "reopen", trig, "re-opening failed: "+err.Error())
		}
		res.Probe("reopen")
		// fixed order: which of several wrong entries is reported first must not depend on map iteration
		var mpaths []string
		for p := range model {
			mpaths = append(mpaths, p)
		}
		sort.Strings(mpaths)
		for _, p := range mpaths {
			a := model[p]
			fi, err := rfs.Stat(vpath(p))
			if err != nil {
				return fail(i, "stat", trig, fmt.Sprintf("Stat(%q): %v", p, err))
			}
			if fi.IsDir() != a.dir {
				return fail(i, "kind", trig, fmt.Sprintf("%q: IsDir=%v, reference %v", p, fi.IsDir(), a.dir))
			}
			if a.mtimeKnown {
				wantT := a.mtime.UTC().Truncate(2 * time.Second)
				if !fi.ModTime().UTC().Equal(wantT) {
					return fail(i, "fat-mtime", trig, fmt.Sprintf("%q: ModTime %v, set to %v (FAT resolution 2 s: %v)", p, fi.ModTime().UTC(), a.mtime.UTC(), wantT))
				}
			}
			if a.dir {
				if ar, ok := rfs.(archiver); ok && a.archiveKnown {
					got, err := ar.GetArchiveBit(p)
					if err != nil || got != a.archive {
						return fail(i, "fat-archive", trig, fmt.Sprintf("%q: archive bit %v (%v), set to %v", p, got, err, a.archive))
					}
				}
				continue
			}
			f, err := rfs.OpenFile(p, os.O_RDONLY)
			if err != nil {
				return fail(i, "open", trig, fmt.Sprintf("OpenFile(%q): %v", p, err))
			}
			fl, ok := f.(flagger)
			if ok {
				if fl.IsHidden() != a.hidden || fl.IsSystem() != a.system || fl.IsReadOnly() != a.readonly {
					return fail(i, "fat-flags", trig, fmt.Sprintf("%q: hidden/system/readonly = %v/%v/%v, reference %v/%v/%v", p, fl.IsHidden(), fl.IsSystem(), fl.IsReadOnly(), a.hidden, a.system, a.readonly))
				}
			}
			f.Close()
			if ar, ok := rfs.(archiver); ok && a.archiveKnown {
				got, err := ar.GetArchiveBit(p)
				if err != nil || got != a.archive {
					return fail(i, "fat-archive", trig, fmt.Sprintf("%q: archive bit %v (%v), set to %v", p, got, err, a.archive))
				}
			}
		}
		return nil
	}
	hist := core.HashStr(fmt.Sprintf("fat%d", ft))
	changed := false
	for i, o := range t.Ops {
		a := model[o.P]
		if a == nil && o.K != "reopen" {
			continue
		}
		var err error
		trig := o.K
		res.Steps++
		res.Evals++
		pk, pv, loc, _ := core.Guard(func() {
			switch o.K {
			case "chtimes":
				ts := time.Unix(o.A, 0).UTC()
				err = fs.Chtimes(o.P, ts, ts, ts)
				if err == nil {
					a.mtime, a.mtimeKnown = ts, true
					res.Probe("fat-time-change")
				}
			case "hidden", "system", "readonly":
				if a.dir {
					return
				}
				var f filesystem.File
				f, err = fs.OpenFile(o.P, os.O_RDWR)
				if err != nil {
					return
				}
				fl := f.(flagger)
				switch o.K {
				case "hidden":
					err = fl.SetHidden(o.A == 1)
					if err == nil {
						a.hidden = o.A == 1
					}
				case "system":
					err = fl.SetSystem(o.A == 1)
					if err == nil {
						a.system = o.A == 1
					}
				case "readonly":
					err = fl.SetReadOnly(o.A == 1)
					if err == nil {
						a.readonly = o.A == 1
					}
				}
				f.Close()
				res.Probe("fat-flag-change")
			case "archive":
				err = fs.(archiver).SetArchiveBit(o.P, o.A == 1)
				if err == nil {
					a.archive, a.archiveKnown = o.A == 1, true
				}
			case "write":
				if a.dir {
					return
				}
				var f filesystem.File
				f, err = fs.OpenFile(o.P, os.O_RDWR)
				if err != nil {
					return
				}
				_, err = f.Write(core.PatternBytes(uint64(o.C), o.B))
				f.Close()
				// a content write may legitimately touch the modification time and the archive bit
				a.mtimeKnown, a.archiveKnown = false, false
			case "reopen":
				var nfs fatFS
				nfs, err = fatRead(d, ft, size, start, 512)
				if err == nil {
					fs = nfs
				}
			}
		})
		if pk {
			res.V = &core.Violation{Clause: "C19.panic", Trigger: "fat:" + trig + ":" + core.PanicClass(pv), Locus: loc, Detail: fmt.Sprint(pv), OpIndex: i}
			return res
		}
		if err != nil {
			continue
		}
		changed = true
		hist = core.Mix(hist, core.HashStr(o.K), uint64(o.A&1))
		if r := verify(i, trig); r != nil {
			return r
		}
	}
	if changed {
		res.Hashes = append(res.Hashes, hist)
	}
	if res.Evals == 0 {
		res.Evals = 1
	}
	res.Sample = t.Summary()
	return res
}

// ---------------------------------------------------------------- workspace metadata (squashfs, ISO Rock Ridge)

type wsMeta struct {
	path  string
	dir   bool
	link  string
	mode  os.FileMode // permission bits + setuid/setgid/sticky
	uid   uint32
	gid   uint32
	mtime time.Time
	data  []byte
}

func execWorkspaceMeta(t *core.Trace) *core.Result {
	res := core.NewResult()
	wl := t.Sg("wl")
	if tz := t.I("tz"); tz != 0 && tz >= -48 && tz <= 56 {
		saved := time.Local
		time.Local = time.FixedZone("SIM", int(tz)*900)
		defer func() { time.Local = saved }()
		if tz < 0 {
			res.Probe("zone-west-of-utc")
		} else {
			res.Probe("zone-east-of-utc")
		}
	}
	tag := uint64(t.I("tag"))
	r := core.NewRng(tag ^ 0xc19)
	n := int(t.I("n"))
	if n < 1 {
		n = 1
	}
	if n > 12 {
		n = 12
	}
	var ents []wsMeta
	modes := []os.FileMode{0o644, 0o600, 0o755, 0o777, 0o000, 0o444, 0o4755 & 0o777, 0o111}
	uids := []uint32{0, 1, 1000, 65534, 65535, 65536, 100000, 1<<31 - 1, 1<<32 - 2}
	times := []int64{1700000000, 1, 0, -1, -86400 * 365 * 20, 2147483647, 2147483648, 4102444800, 946684800}
	if wl == "squashfs" {
		// squashfs stores seconds since 1970 in an unsigned 32-bit field: 1970..2106 is the representable range
		times = []int64{1700000000, 1, 0, 2147483647, 2147483648, 4102444800, 946684800, 1<<32 - 1, 1<<32 - 2}
	}
	ents = append(ents, wsMeta{path: "sub", dir: true, mode: 0o755})
	for i := 0; i < n; i++ {
		e := wsMeta{path: fmt.Sprintf("f%02d.dat", i), data: core.PatternBytes(tag+uint64(i), r.Range(0, 3000))}
		if r.Chance(25) {
			e.path = "sub/" + e.path
		}
		e.mode = modes[r.Intn(len(modes))]
		switch r.Intn(7) {
		case 0:
			e.mode |= os.ModeSetuid
		case 1:
			e.mode |= os.ModeSetgid
		case 2:
			e.mode |= os.ModeSticky
		case 3:
			// (several of them at once)
			e.mode |= []os.FileMode{os.ModeSetuid | os.ModeSetgid, os.ModeSetuid | os.ModeSticky, os.ModeSetgid | os.ModeSticky, os.ModeSetuid | os.ModeSetgid | os.ModeSticky}[r.Intn(4)]
		}
		if r.Chance(25) {
			e.dir, e.data = true, nil
			e.path = fmt.Sprintf("dir%02d", i)
			e.mode |= 0o100 // keep it traversable for the walker
		}
		e.uid, e.gid = uids[r.Intn(len(uids))], uids[r.Intn(len(uids))]
		e.mtime = time.Unix(times[r.Intn(len(times))], 0)
		ents = append(ents, e)
	}
	if t.I("manyids") == 1 && wl == "squashfs" {
		res.Probe("id-table-over-one-block")
		for k := 0; k < 1150; k++ {
			if k%100 == 0 {
				ents = append(ents, wsMeta{path: fmt.Sprintf("ids%02d", k/100), dir: true, mode: 0o755, mtime: time.Unix(1700000000, 0)})
			}
			ents = append(ents, wsMeta{path: fmt.Sprintf("ids%02d/o%04d", k/100, k), data: []byte{byte(k)}, mode: 0o644, uid: uint32(100000 + k), gid: uint32(300000 + k), mtime: time.Unix(1700000000+int64(k), 0)})
		}
	}
	if wl == "isorr" && tag%8 == 0 {
		// a directory nine and ten levels down: Rock Ridge moves it up and leaves a placeholder - attributes included
		res.Probe("relocated-directory")
		pth := ""
		for lv := 1; lv <= 10; lv++ {
			if pth != "" {
				pth += "/"
			}
			pth += fmt.Sprintf("lv%d", lv)
			ents = append(ents, wsMeta{path: pth, dir: true, mode: os.FileMode(0o755 - 0o011*(lv%2)), uid: uint32(lv), gid: uint32(100 + lv), mtime: time.Unix(1700000000+int64(lv)*86400, 0)})
		}
		ents = append(ents, wsMeta{path: pth + "/leaf.dat", data: []byte("leaf"), mode: 0o640, uid: 7, gid: 8, mtime: time.Unix(1600000000, 0)})
	}
	linkLens := []int{1, 7, 59, 60, 61, 200, 1000, 4095}
	for i := 0; i < 1+r.Intn(3); i++ {
		ll := linkLens[r.Intn(len(linkLens))]
		tgt := strings.Repeat("t", ll)
		switch r.Intn(3) {
		case 0:
			// path-like: components of seeded lengths incl. "." and ".."
			b := []byte(tgt)
			comps := []string{"..", ".", "a", "target-name", strings.Repeat("c", 100), strings.Repeat("d", 255)}
			pos := 0
			for pos < ll {
				c := comps[r.Intn(len(comps))]
				if pos+len(c) > ll {
					break
				}
				copy(b[pos:], c)
				pos += len(c)
				if pos < ll-1 {
					b[pos] = '/'
					pos++
				}
			}
			tgt = string(b)
		case 1:
		}
		if r.Bool() && ll > 1 && tgt[1] != '/' {
			// (no "//": empty path components are not representable as Rock Ridge component records and mean the same as "/")
			tgt = "/" + tgt[1:]
		}
		ents = append(ents, wsMeta{path: fmt.Sprintf("link%d", i), link: tgt, uid: uids[r.Intn(len(uids))], gid: uids[r.Intn(len(uids))], mtime: time.Unix(times[r.Intn(len(times))], 0)})
	}
	for i := range ents {
		if ents[i].path == "sub" {
			ents[i].uid, ents[i].gid, ents[i].mtime = 0, 0, time.Unix(1700000000, 0)
		}
	}
	fail := func(clause, trig, detail string) *core.Result {
		res.V = &core.Violation{Clause: "C19." + clause, Trigger: wl + ":" + trig, Locus: "filesystem/" + map[string]string{"squashfs": "squashfs", "isorr": "iso9660"}[wl], Detail: detail, OpIndex: -1}
		return res
	}
	size := int64(16 << 20)
	d := simdisk.New(size)
	var ws string
	var sq *squashfs.FileSystem
	var iso *iso9660.FileSystem
	var err error
	scratch()
	if wl == "squashfs" {
		sq, err = squashfs.Create(d, size, 0, 4096)
		if err == nil {
			ws = sq.Workspace()
		}
	} else {
		ws = newScratchSub("c19-iso")
		iso, err = iso9660.Create(d, size, 0, 2048, ws)
	}
	if err != nil {
		res.Evals = 1
		return res
	}
	defer os.RemoveAll(ws)
	// build the workspace and set the metadata explicitly (children before parents' times)
	for _, e := range ents {
		hp := filepath.Join(ws, filepath.FromSlash(e.path))
		switch {
		case e.dir:
			err = os.MkdirAll(hp, 0o755)
		case e.link != "":
			err = os.Symlink(e.link, hp)
		default:
			err = os.WriteFile(hp, e.data, 0o644)
		}
		if err != nil {
			panic(err)
		}
	}
	for i := len(ents) - 1; i >= 0; i-- {
		e := ents[i]
		hp := filepath.Join(ws, filepath.FromSlash(e.path))
		if err := os.Lchown(hp, int(e.uid), int(e.gid)); err != nil {
			panic(err)
		}
		if e.link == "" {
			if err := os.Chmod(hp, e.mode); err != nil {
				panic(err)
			}
		}
		setHostMtime(hp, e.mtime)
	}
	setHostMtime(ws, time.Unix(1700000000, 0))
	var ferr error
	if pk, pv, loc, _ := core.Guard(func() {
		if wl == "squashfs" {
			comp := []squashfs.Compressor{&squashfs.CompressorGzip{CompressionLevel: 6}, &squashfs.CompressorXz{}, &squashfs.CompressorLz4{}, &squashfs.CompressorZstd{}}[t.I("sqcomp")%4]
			ferr = sq.Finalize(squashfs.FinalizeOptions{Compression: comp})
		} else {
			ferr = iso.Finalize(iso9660.FinalizeOptions{RockRidge: true})
		}
	}); pk {
		res.V = &core.Violation{Clause: "C19.panic", Trigger: wl + ":finalize:" + core.PanicClass(pv), Locus: loc, Detail: fmt.Sprint(pv), OpIndex: -1}
		return res
	}
	res.Evals = 1
	if ferr != nil {
		res.Sample = "Finalize refused: " + ferr.Error()
		res.Probe("finalize-refused")
		return res
	}
	var rfs filesystem.FileSystem
	if pk, pv, loc, _ := core.Guard(func() {
		if wl == "squashfs" {
			rfs, err = squashfs.Read(d.Clone(), size, 0, 4096)
		} else {
			rfs, err = iso9660.Read(d.Clone(), size, 0, 2048)
		}
	}); pk {
		res.V = &core.Violation{Clause: "C19.panic", Trigger: wl + ":read:" + core.PanicClass(pv), Locus: loc, Detail: fmt.Sprint(pv), OpIndex: -1}
		return res
	}
	if err != nil {
		return fail("cannot-reopen", "read", err.Error())
	}
	nontrivial := false
	for _, e := range ents {
		var fi iofs.FileInfo
		var err error
		// Stat follows no links in these readers; for links use the directory listing entry
		parent := parentOfValid(e.path)
		var de iofs.DirEntry
		if pk, pv, loc, _ := core.Guard(func() {
			var list []iofs.DirEntry
			list, err = rfs.ReadDir(parent)
			for _, x := range list {
				if x.Name() == baseOf(e.path) {
					de = x
				}
			}
			if de != nil {
				fi, err = de.Info()
			}
		}); pk {
			res.V = &core.Violation{Clause: "C19.panic", Trigger: wl + ":stat:" + core.PanicClass(pv), Locus: loc, Detail: fmt.Sprint(pv), OpIndex: -1}
			return res
		}
		if de == nil || err != nil || fi == nil {
			return fail("missing", "stat", fmt.Sprintf("%q not found in the image (err=%v)", e.path, err))
		}
		res.Steps++
		kind := "file"
		if e.dir {
			kind = "dir"
		} else if e.link != "" {
			kind = "symlink"
		}
		gotKind := "file"
		if fi.IsDir() {
			gotKind = "dir"
		} else if fi.Mode()&os.ModeSymlink != 0 {
			gotKind = "symlink"
		}
		if gotKind != kind {
			return fail("kind", kind, fmt.Sprintf("%q is a %s in the workspace and a %s in the image", e.path, kind, gotKind))
		}
		if fi.Mode().IsDir() != fi.IsDir() {
			return fail("mode", "mode(type-bits)", fmt.Sprintf("%q: IsDir() is %v, the type bits of Mode() say %v (%v)", e.path, fi.IsDir(), fi.Mode().IsDir(), fi.Mode()))
		}
		if e.link != "" {
			if len(e.link) > 255 {
				res.Probe("long-symlink")
			}
			var tgt string
			var lerr error
			if rl, ok := any(de).(interface{ Readlink() (string, error) }); ok {
				tgt, lerr = rl.Readlink()
			} else if rl, ok := any(fi).(interface{ Readlink() (string, error) }); ok {
				tgt, lerr = rl.Readlink()
			} else if rl, ok := any(de).(interface{ ReadLink() (string, bool) }); ok {
				var found bool
				tgt, found = rl.ReadLink()
				if !found {
					lerr = fmt.Errorf("ReadLink reports no target")
				}
			} else {
				lerr = fmt.Errorf("no Readlink method")
			}
			if lerr != nil || tgt != e.link {
				return fail("link-target", fmt.Sprintf("symlink(len%s)", lenClass(len(e.link))), fmt.Sprintf("%q: target %d bytes %q (%v), workspace %d bytes %q", e.path, len(tgt), clip(tgt, 50), lerr, len(e.link), clip(e.link, 50)))
			}
		} else {
			wantMode := e.mode & (os.ModePerm | os.ModeSetuid | os.ModeSetgid | os.ModeSticky)
			gotMode := fi.Mode() & (os.ModePerm | os.ModeSetuid | os.ModeSetgid | os.ModeSticky)
			if wantMode&(os.ModeSetuid|os.ModeSetgid|os.ModeSticky) != 0 {
				res.Probe("special-bits")
				nontrivial = true
			}
			if gotMode != wantMode {
				trig := "mode"
				if wantMode&(os.ModeSetuid|os.ModeSetgid|os.ModeSticky) != 0 {
					trig = "mode(special-bits)"
				}
				return fail("mode", trig, fmt.Sprintf("%q: mode %v in the image, %v in the workspace", e.path, gotMode, wantMode))
			}
		}
		// owner
		uid, gid, ok := sysOwner(fi.Sys())
		if ok {
			if e.uid > 65535 || e.gid > 65535 {
				res.Probe("uid-over-16bit")
				nontrivial = true
			}
			if uid != e.uid || gid != e.gid {
				return fail("owner", fmt.Sprintf("owner(%s)", map[bool]string{true: ">16bit", false: "<=16bit"}[e.uid > 65535 || e.gid > 65535]), fmt.Sprintf("%q: uid:gid %d:%d in the image, %d:%d in the workspace", e.path, uid, gid, e.uid, e.gid))
			}
		}
		// modification time (second resolution)
		if e.link == "" || wl == "squashfs" {
			if e.mtime.Unix() < 0 {
				res.Probe("time-pre-1970")
			}
			if e.mtime.Unix() > 2147483647 {
				res.Probe("time-post-2038")
			}
			if !fi.ModTime().Equal(e.mtime) {
				cls := "1970..2038"
				if e.mtime.Unix() < 0 {
					cls = "pre-1970"
				} else if e.mtime.Unix() > 2147483647 {
					cls = "post-2038"
				}
				return fail("mtime", "mtime("+cls+")", fmt.Sprintf("%q: ModTime %v in the image, %v in the workspace", e.path, fi.ModTime().UTC(), e.mtime.UTC()))
			}
		}
	}
	if nontrivial || len(ents) > 2 {
		res.Hashes = append(res.Hashes, core.Mix(core.HashStr(wl), tag))
	}
	res.Sample = fmt.Sprintf("%s: %d workspace entries with explicit mode/owner/mtime/link targets", wl, len(ents))
	return res
}

func lenClass(n int) string {
	switch {
	case n < 60:
		return "<60"
	case n <= 255:
		return "60..255"
	}
	return ">255"
}

// sysOwner extracts UID/GID from a Sys() value by field name (works for the StatT of each package).
func sysOwner(sys any) (uid, gid uint32, ok bool) {
	if sys == nil {
		return 0, 0, false
	}
	v := reflect.ValueOf(sys)
	if v.Kind() == reflect.Pointer {
		if v.IsNil() {
			return 0, 0, false
		}
		v = v.Elem()
	}
	if v.Kind() != reflect.Struct {
		return 0, 0, false
	}
	u, g := v.FieldByName("UID"), v.FieldByName("GID")
	if !u.IsValid() || !g.IsValid() {
		return 0, 0, false
	}
	return uint32(u.Uint()), uint32(g.Uint()), true
}
