#!/usr/bin/env python3
"""Regenerates MANIFEST.json from the table below (single source of truth for claimed checks)."""
import json, os
HERE = os.path.dirname(os.path.abspath(__file__))

TECH = "deterministic simulation with fault injection: seeded runs of the real library on a simulated block device (SimDisk); "

CHECKS = {
 "C06": dict(level="exploration", design="§5 C06",
   text="Seeded workspace trees (depth 0..8, up to 300 entries per directory, sizes 0/<block/exact multiples/hundreds of KiB, names colliding after 8.3 truncation, mixed case, long names, symlinks under Rock Ridge) are finalized with {plain, Rock Ridge, Joliet, both} x block size 2048/4096/8192 x start 0 or 1 MiB inside a larger noise-filled simulated device with the write guard armed; the image is read back with iso9660.Read (names exact under Rock Ridge/Joliet; plain mode matched by content with the documented 8.3 mapping for non-colliding names) and by an independent primary-volume-descriptor walker on the raw device bytes (same files, extents inside the written image, pairwise disjoint, both-endian fields agree).",
   note="No schedule/clock/fault dimension exists for this property; the simulator contributes placement at start != 0, the write-range guard and raw device bytes. Seeded sampling; numbering inside a collision group is not pinned.",
   technique=TECH+"seeded tree generation vs reference tree + independent ISO9660 walker on the simulated device (placement/write-extent seam only)"),
 "C07": dict(level="exploration", design="§5 C07",
   text="Seeded workspace trees (empty dirs, hundreds of entries per directory, sizes 0/<block/k*block/k*block+tail, zero runs, compressible/incompressible data, symlinks incl. dangling and long targets) are finalized with seeded option sets (none/gzip/xz/lz4/zstd, fragments on/off, NoCompressData/Fragments/Inodes, block size 4 KiB..1 MiB, start 0/4 KiB/1 MiB) on the simulated device and read back twice with different read-cache sizes (0, one block, three blocks, default) so that the miss path runs; listings, contents and link targets must equal the workspace for every option set, the superblock's bytes-used must equal the end of what the device saw written (write log) and the table pointers must be ordered inside it.",
   note="No schedule/clock/fault dimension exists for this property; the simulator contributes placement, the write log (size oracle), the write guard and knob randomisation incl. cache size. Seeded sampling.",
   technique=TECH+"seeded tree/option/knob generation vs reference tree, device write log as size oracle (placement and cache-size knobs)"),
 "C16": dict(level="exploration", design="§5 C16",
   text="A seeded tree is offered as source by a host directory, by fat32/ext4/iso9660 Rock Ridge/squashfs images on simulated devices, or by an in-memory fs.FS whose files return legal short reads (1-byte and odd pieces, (n,EOF), one (0,nil)); CopyFileSystem copies it into fat12/16/32 and ext4 volumes; when it returns nil the reopened destination is compared with the tree by an independent walker (no excluded names copied, nothing missing or extra, contents equal). CompareFS must return nil on the faithful copy and an error for each single-point mutation presented through overlay filesystems (byte changed at first/middle/last position, content one byte longer/shorter, size +-1, entry missing, extra file, extra directory, file became directory) and for one stored data byte flipped on the destination device; thorough adds a file above the 64 MiB streaming threshold from a zero-generating source.",
   note="Seeded sampling over trees and pairings. Names are legal for the destination; dot-file naming on ISO sources is left to C06. A copy that returns an error is not judged.",
   technique=TECH+"stream fault injection (legal short reads) + single-point mutation overlays + stored-byte flip, independent tree diff"),
 "C19": dict(level="exploration", design="§5 C19",
   text="Four workloads: (ext4) seeded histories biased to Chmod (all 12 bits), Chown (0, 65535, 65536, 2^32-2, -1 = keep), Chtimes (1901..2100 with nanoseconds) and Symlink (1..1000 bytes, around the 59/60 inline limit) interleaved with content writes, every attribute of every entry compared with a reference model live and after re-opening from the device bytes, e2fsck as second opinion; (fat12/16/32) histories of Chtimes (1980..2107, odd seconds), SetHidden/SetSystem/SetReadOnly/SetArchiveBit on files and directories interleaved with writes, every attribute of every entry compared after each step on a re-opened image (a change to one attribute must change nothing else; kinds never swap); (squashfs, iso9660 Rock Ridge) a workspace whose entries get seeded modes incl. setuid/setgid/sticky, uids/gids over the 16/32-bit ranges, mtimes before 1970 (Rock Ridge) and after 2038, symlink targets of 1..4095 bytes (one long component or path-like, relative/absolute), finalized onto the simulated device, re-opened and compared through Stat/ReadLink/Sys.",
   note="Seeded sampling of attribute values and histories; no fault or schedule dimension beyond reopen-from-bytes (the squashfs/ISO parts are input-driven). squashfs times are 1970..2106 (unsigned 32-bit field). Empty path components ('//') in link targets are not generated.",
   technique=TECH+"seeded attribute histories vs reference model with reopen-from-bytes; workspace metadata round trip through Finalize"),
 "C20": dict(level="exploration", design="§5 C20",
   text="Images are produced by the reference tools, not by the library: a seeded tree (directories of 0..5000 entries so that dir_index builds one- and two-level hash trees, sparse files of 3..1400 extents so that the extent tree gets leaf blocks and interior nodes, holes incl. files over 4 GiB, fast/slow symlinks, hard links, fifos, user xattrs in the inode and in a block incl. empty values, all 12 mode bits, 16/32-bit owners, times) is packed by mke2fs 1.47.0 -d with a seeded option set (1k/2k/4k blocks, 128/256-byte inodes, ext4/ext3/ext2 style and ext4 without extents, 64bit, flex_bg, metadata_csum or uninit_bg, dir_index, huge_file, sparse_super2, journal; a minority with meta_bg, bigalloc, inline_data, ea_inode), then optionally modified by debugfs -w (rm, write, symlink, mkdir, ea_set, set_inode_field for uid/gid high halves and 34-bit times with nanoseconds, punch, fallocate = unwritten extents); e2fsck -fn must accept the image and debugfs' own extraction must agree with the model before the library is judged. The image is loaded on the simulated device at offset 0 / 1 MiB / 5 GiB and read with ext4.Read, ReadDir, Stat, Open/Read, ReadLink, GetXattr; tree, kinds, sizes, contents (position-dependent non-zero pattern; holes and unwritten ranges must read as zeros), modes, owners, times, targets and xattrs are compared with what was put in. A refusal by ext4.Read is accepted except for the distribution-default mke2fs -t ext4; on images with extent-less files or an exotic feature an error on the affected call is accepted; wrong data never.",
   note="Seeded sampling over option sets and trees; the trace's ops are the tree entries and debugfs commands, so a failing image is minimised entry by entry. Input- and configuration-driven: there is no fault, schedule or clock dimension in this property. Entries of large directories are all listed but only a sample (about 40) is Stat-ed/read one by one. The library refuses volumes without metadata_csum (accepted as a refusal), so ext2/ext3-style volumes are only reached through -O ^extent with metadata_csum.",
   technique=TECH+"seeded configuration and tree search against images made by the reference implementation (mke2fs/debugfs), e2fsck and debugfs extraction as oracle guards, simulated device with read accounting"),
 "C18": dict(level="fault_enumeration", design="§5 C18",
   text="Per base image of every filesystem kind (fat12/16/32, ext4 written by the library and by mke2fs, iso9660 plain/Rock Ridge/Joliet, squashfs with several compressors/options), built deterministically on the simulated device: (a) the structural field map of the format (BPB/FSInfo fields, FAT entries incl. self/back links and out-of-range, directory entries; ext4 superblock, group descriptors, inodes, extent headers and entries, directory entries; ISO volume descriptors, root/directory records, path table entries; squashfs superblock fields, table pointers, metadata headers) x boundary values is enumerated; (b) seeded blind pokes of 1/2/4/8 bytes inside the writer's metadata extents (file payload excluded; 300 per image quick, 4000 thorough); (c) device truncation at structure boundaries. Each damaged image is opened, walked and every file Stat-ed and read through a bounded reader under a device-read budget (ReadAt raises once exceeded, which breaks endless read loops), a per-request size bound and a per-call CPU-time bound, with the worker under RLIMIT_AS and its death or hang attributed to the case through a shared-memory marker.",
   note="Field map enumeration is complete per base image; blind pokes are a seeded sample. Budgets: max(20000, 1000x baseline) device reads, request <= 64x image + 1 MiB, 5 s CPU per library call (a timing overrun must reproduce in a fresh process); the walker stops descending after 10 s CPU in total, since the cost of a whole walk is the walker's number of calls times directory size and not a property of one call. Returned data is not judged.",
   technique=TECH+"stored-byte corruption and truncation fault enumeration over per-format field maps with read budgets and process-death attribution"),
 "C17": dict(level="exploration", design="§5 C17, §2.6",
   text="One opened squashfs image (files sharing fragment and metadata blocks, four compressors) is read by 2..8 (quick) / 2..32 (thorough) tasks with their own handles (ReadFile, ReadDir, Stat, Seek+partial Read) while another task calls SetCacheSize, with cache sizes 0, 1, 2, 4 blocks and default. The tasks are real goroutines run one at a time by a seeded cooperative scheduler (uniform random or PCT priorities) that decides who proceeds at every lock request, lock release and before/after every device ReadAt; Lock/Unlock call sites of the squashfs package are routed to the scheduler's lock model by a build-time go/ast rewrite through go build -overlay (no change in /repo). Oracles: every task's bytes equal the sequential reference, all tasks finish (lock-model deadlock detection, step budget), LRU map/list invariants hold whenever no lock is held, and in a second wave the same schedules run in a -race build whose token hand-off is uninstrumented, so the Go race detector reports data races for the schedule being run.",
   note="Seeded search over schedules, not enumeration. Locks are modelled from the rewritten call sites; a blocking primitive that is not a mutex would be invisible (none exists). GetCacheSize is not called concurrently (outside the statement). Replay files carry the recorded decision list.",
   technique=TECH+"seeded cooperative scheduler with lock model (PCT/uniform), schedule replay, race detector on uninstrumented token hand-off"),
 "C04": dict(level="exploration", design="§5 C04",
   text="Seeded histories (mkdir, create, writes at start/inside/EOF/EOF+gap in several steps, append, symlinks around the 60-byte inline limit, remove, chmod with all 12 bits, chown over the 16/32-bit ranges, chtimes, many files per directory, interleaved appends that fragment extents, reopen) on ext4 volumes with 1 KiB/4 KiB blocks, with/without journal and metadata checksums, at start 0 / 1 MiB / 5 GiB on the simulated device; after every operation listings, contents, link targets and the attributes the history set are compared with an in-memory tree, live, through the writing handle and after re-opening from the bytes.",
   note="Seeded sampling. Attributes are compared only once the history has set them; a path touched by a refused call is excluded afterwards; truncating open is not in the statement and not issued.",
   technique=TECH+"seeded operation histories vs in-memory reference tree with attributes, reopen-from-bytes"),
 "C05": dict(level="exploration", design="§5 C05",
   text="After Create with a seeded parameter set (block size, blocks per group, inode ratio/count, journal, 64bit, flex_bg, metadata_csum, sparse_super2; sizes with full and partial last groups) and after every operation of a seeded history, accepted or refused, the durable bytes of the volume are handed to the reference checker: e2fsck -f -n must exit 0; every fourth step and at the end debugfs rdump extracts the tree and files and link targets are compared with what was written.",
   note="Seeded sampling; the oracle is an independent implementation (e2fsprogs 1.47.0). No open known finding is left: the sparse_super2 and explicit blocks-per-group defects that were listed earlier have been repaired (known_findings.jsonl, fixed entries).",
   technique=TECH+"seeded histories with e2fsck/debugfs (independent implementation) evaluated on the device bytes after every step"),
 "C11": dict(level="exploration", design="§5 C11",
   text="Images of every filesystem kind (whole device or inside a GPT/MBR partition) are attached read-only in four ways (backend whose Writable() fails, file.New(readOnly), file.OpenFromPath(readOnly), diskfs.Open(ReadOnly) on a real scratch file) and driven with seeded histories interleaving every public reading call with every public mutating call (Partition, WritePartitionContents, CreateFilesystem, Mkdir, OpenFile with write/create/append/truncate flags, Write, Rename, Remove, SetLabel, Chmod, Chown, Chtimes, Symlink); each mutating call must return an error, the simulated device must see zero WriteAt calls and an unchanged SHA-256; on a read-write attachment the reading calls alone must not write.",
   note="Seeded sampling. For the two OS-file attachments the operating system enforces read-only and the file hash is compared. In-memory state after a refused call is not judged (the statement is about the image).",
   technique=TECH+"read-only fault at the backend seam + device write log and image hash as monitors under seeded call histories"),
 "C12": dict(level="exploration", design="§5 C12",
   text="Histories of 0..3 Disk.CreateFilesystem calls (with Finalize and one file) of seeded types on the same range - whole disk, GPT partition, MBR partition; 512/2048/4096-byte sectors; sizes around the FAT thresholds - leaving the stale bytes of each predecessor in place, then a fresh diskfs.OpenBackend on the durable bytes: partition table type, GetFilesystem type, label and file contents must be those of the last filesystem created; a blank range must be reported as having none.",
   note="Seeded sampling over layouts, type sequences and sizes; mostly configuration coverage (stated in DESIGN). Labels are compared for FAT/ext4/ISO (padding trimmed).",
   technique=TECH+"seeded create-over-stale-bytes histories on the simulated device, fresh open from durable bytes"),
 "C14": dict(level="exploration", design="§5 C14",
   text="The same seeded FAT12/16/32 history (or GPT/MBR table history with GUIDs given) is executed in two separate OS processes under testing/synctest's fake clock: A at fake time T0, B after a seeded clock jump (seconds to 40 years) with further jumps between operations, at another start offset inside a device with other surrounding noise and another entropy seed, with a fixed seeded SOURCE_DATE_EPOCH (incl. 0, pre-1980, odd seconds); the canonical hashes of the volume range must be equal. A third, non-reproducible control execution must differ, which shows the clock fault reaches the code (probe control-differs).",
   note="Seeded sampling. Bytes inside the range before Create are zero in both executions. The fake clock is synctest's; each execution is a child test binary (go test -c) because synctest needs a *testing.T.",
   technique=TECH+"clock-jump fault injection (testing/synctest fake clock) + process boundary + offset/noise/entropy variation, image hash equality"),
 "C10": dict(level="exploration", design="§5 C10",
   text="Seeded histories of Read(len)/Seek(off,whence)/Close/re-open on handles of files of known content whose sizes sit on 0/1/unit-1/unit/unit+1/multi-unit boundaries, on images of every filesystem kind (fat12/16/32, ext4 written by the library and by mke2fs, iso9660 plain/Rock Ridge/Joliet, squashfs with four compressors, without compression and without fragments) built on the simulated device at start 0 or a non-zero offset; every call is compared with a cursor model (bytes.Reader semantics with io.Reader laxity): bytes, counts, io.EOF exactly at the end, Seek results, negative targets refused with the cursor unchanged, Read after Close fails.",
   note="Seeded sampling of call histories. Image construction uses the library's own writers (and mke2fs for ext4); an image that cannot be built or re-opened is skipped here (it is another property's clause).",
   technique=TECH+"seeded handle-call histories vs executable cursor model on images of every filesystem kind"),
 "C01": dict(level="exploration", design="§5 C01",
   text="Seeded operation histories (mkdir, create, write at start/inside/EOF/EOF+gap, append, truncating open, rename incl. rename-over, remove, fill-until-refused/empty/refill cycles, held handles, reopen) on FAT12/16/32 volumes of seeded size and start offset inside a larger noise-filled simulated device; after every operation listings, sizes and contents are compared with an in-memory tree, live, through the writing handle and after re-opening the image from its bytes; refused calls must leave every other path unchanged; a refill must reach the first fill's capacity.",
   note="Seeded sampling of histories (not exhaustive). Trusted: reference tree, SimDisk. Operations whose preconditions fail in the model are skipped; names restricted to the legal-name domain; device EIO not injected; 'full' is produced by the workload.",
   technique=TECH+"seeded operation histories vs in-memory reference tree with volume-full faults and reopen-from-bytes"),
 "C03": dict(level="exploration", design="§5 C03",
   text="The simulated device checks every WriteAt against the exact byte range the component was given (filesystem range, partition, or the table's own sectors as computed by an independent parser) and compares guard-band hashes; workloads: FAT histories biased to fill-until-refused at starts 0/512/1 MiB/5 GiB with sizes not a multiple of the cluster size, partition-content streaming with short/exact/long readers beyond 4 GiB, GPT/MBR table writes on noise disks.",
   note="Seeded sampling. The write guard is raised at the call with the library call site. ext4/ISO9660/squashfs workloads are added as those harnesses exist (see evidence: workloads run).",
   technique=TECH+"device-seam write-range monitor (every WriteAt range-checked, guard bands hashed) under fill-to-ENOSPC workloads"),
 "C08": dict(level="exploration", design="§5 C08",
   text="Same seeded FAT histories as C01; after Create and after every operation, accepted or refused, an independent FAT12/16/32 reader written from the specification checks the raw bytes: BPB geometry equals the range given, FAT32 backup boot sector and FSInfo, identical FAT copies, chains in range/terminated/long enough, no cross-links, no lost clusters, no used FAT entries beyond the last cluster.",
   note="Seeded sampling. The independent reader is our own (fsck.fat is not installed) and decodes the volume as the type the creator asked for; '.'/'..' entries are not judged.",
   technique=TECH+"seeded histories with an independent structural reader evaluated on the device bytes after every step"),
 "C02": dict(level="exploration", design="§5 C02",
   text="Seeded histories of 1..4 GPT/MBR table writes (0..128 sparse/unordered GPT entries, three size spellings, non-BMP names, auto GUIDs from a seeded entropy source, any MBR type/start/size) through Disk.Partition and Table.Write on simulated disks from the minimum to 3 TiB with 512/4096-byte sectors, blank or noise-filled, power-cycled at return; read back with gpt.Read/mbr.Read/partition.Read/Disk.GetPartition against the table model and validated by an independent GPT/MBR parser (both header CRCs, both array CRCs, backup mirrors primary, protective MBR), plus rewrite-of-read-table idempotence.",
   note="Exploration by seeded sampling: a clean batch is evidence, not proof. Trusted: table model (the spec list itself), independent parser, SimDisk. The codec core has no schedule/clock dimension; the live simulator dimensions are device geometry, predecessor bytes, entropy and the power cycle.",
   technique=TECH+"seeded table histories vs reference model + independent parser, power cycle at return"),
 "C13": dict(level="exploration", design="§5 C13",
   text="Seeded GPT/MBR layouts on a sparse 64 GiB simulated disk (partitions below, across and beyond 4 GiB; one >=4 GiB partition streamed as zeros; 512/4096 logical, physical>logical) driven through WritePartitionContents/ReadPartitionContents/CopyPartitionRaw with simulated caller streams (short/exact/long, 1-byte and odd pieces, (n,EOF), (0,nil), error after k bytes); oracle: success iff exactly the partition size was supplied, device bytes at the partition's own offset equal the stream, nothing outside changes (write guard at the device seam), reads deliver exactly the partition, copy leaves target prefix equal to source and returns.",
   note="Seeded sampling. CopyPartitionRaw's two goroutines run unscheduled (pipe rendezvous makes the result schedule-independent; device serialised by a mutex; 30 s watchdog). Source/target never overlap.",
   technique=TECH+"stream fault injection (legal short/odd/erroring readers) + device write guard on sparse >4 GiB geometry"),
 "C15": dict(level="fault_enumeration", design="§5 C15",
   text="Per seeded valid base image (GPT or MBR), the full fault family is enumerated: every GPT header field x boundary values x CRC stale/recomputed x primary/backup(primary killed), all pairs of size-determining fields x 6 values x array CRC fixed or not, entry-level corruptions with both CRCs recomputed, truncation of the device at every structure boundary, MBR slot fields and signature, seeded noise; each image is read by partition.Read, gpt.Read and mbr.Read under a read-count and request-size budget with the worker under RLIMIT_AS (death attributed to the case via a shared-memory marker); any GPT returned must match a CRC-valid copy per an independent checker.",
   note="Enumeration of the stated family per base image, sampling over base images. Budgets: <=4000 device reads, single request <=64x device+1 MiB, 10 s. Allocation failure itself cannot be injected in Go; it is bounded through request sizes and RLIMIT_AS.",
   technique=TECH+"stored-byte corruption and truncation fault enumeration with read budgets and process-death attribution"),
 "C09": dict(level="fault_enumeration", design="§5 C09",
   text="Seeded (old GPT, new GPT, geometry) pairs; the real Table.Write runs once on a simulated device with a volatile write cache, then every crash point of the recorded write/sync sequence is enumerated with a generating family of persisted-sector subsets (exhaustive when <=12 sectors in flight) and each crash image is read back with gpt.Read/partition.Read and cross-checked by an independent GPT parser. Enumeration of the crash family per pair, sampling over pairs.",
   note="Assumes sector-atomic writes, arbitrary persistence order of un-synced writes, Sync() as the only barrier. Trusted: SimDisk crash-image construction, independent GPT parser, table canonicalisation.",
   technique=TECH+"power-loss fault enumeration over recorded write/sync trace (record-once, crash-many), old-or-new oracle"),
}

NA_REASON = "no check is registered for this property yet (machinery under construction in this session); nothing is claimed"

def main():
    props = [json.loads(l)["id"] for l in open(os.path.join(HERE, "properties.jsonl"))]
    checks = []
    for pid in props:
        if pid not in CHECKS: continue
        c = CHECKS[pid]
        checks.append({
            "property_id": pid,
            "quick_cmd": f"./check {pid} quick",
            "thorough_cmd": f"./check {pid} thorough",
            "evidence_file": f"/verif/evidence/{pid}.json",
            "replay_cmd_template": "./check replay {path}",
            "engine": "dsim",
            "level_claimed": {"category": c["level"], "text": c["text"], "design_ref": c["design"]},
            "level_note": c["note"],
            "technique": c["technique"],
        })
    na = [{"property_id": p, "reason": NA.get(p, NA_REASON)} for p in props if p not in CHECKS]
    m = {
        "version": 1,
        "setup_cmd": "./check setup",
        "hooks": {
            "guard": "verif",
            "enable": "no hooks exist in /repo: every seam is an interface the simulator implements (backend.Storage, io.Reader/Writer, fs.FS) or is injected at build time with go build -overlay; checks build /repo's working tree as is",
            "baseline_off_cmd": "cd /repo && go test -vet=off -count=1 -timeout 25m ./...",
            "source_commits": [],
            "add_only": True,
        },
        "engines": [{"name": "dsim", "path": "/verif/sim", "serves_properties": sorted(CHECKS), "kind_free_text": "deterministic simulator: SimDisk (sparse device, write-back cache/crash images, write guard, read accounting, corruption), seeded trace generator, ddmin shrinker, replay files, worker processes"}],
        "checks": checks,
        "not_applicable": na,
        "notes": "See DESIGN.md. VERIF_SEED selects the seed (default 1); VERIF_SECONDS/VERIF_RUNS/VERIF_WORKERS override budgets. Exit 2 = build/infrastructure trouble, never a violation.",
    }
    json.dump(m, open(os.path.join(HERE, "MANIFEST.json"), "w"), indent=1)
    print("claimed:", sorted(CHECKS), "unclaimed:", [x["property_id"] for x in na])

NA = {}
if __name__ == "__main__":
    main()
