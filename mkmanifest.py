#!/usr/bin/env python3
"""Regenerates MANIFEST.json from the table below (single source of truth for claimed checks)."""
import json, os
HERE = os.path.dirname(os.path.abspath(__file__))

TECH = "deterministic simulation with fault injection: seeded runs of the real library on a simulated block device (SimDisk); "

CHECKS = {
 "C09": dict(level="fault_enumeration", design="§5 C09",
   text="Seeded (old GPT, new GPT, geometry) pairs; the real Table.Write runs once on a simulated device with a volatile write cache, then every crash point of the recorded write/sync sequence is enumerated with a generating family of persisted-sector subsets (exhaustive when <=12 sectors in flight) and each crash image is read back with gpt.Read/partition.Read and cross-checked by an independent GPT parser. Enumeration of the crash family per pair, sampling over pairs.",
   note="Assumes sector-atomic writes, arbitrary persistence order of un-synced writes, Sync() as the only barrier. Trusted: SimDisk crash-image construction, independent GPT parser, table canonicalisation.",
   technique=TECH+"power-loss fault enumeration over recorded write/sync trace (record-once, crash-many), old-or-new oracle"),
}

NA_REASON = "no check is registered for this property yet (machinery under construction in this session); nothing is claimed"

def main():
    props = [json.loads(l)["id"] for l in open(os.path.join(HERE, "properties.jsonl"))]
    checks = []
    for pid in props:
        if pid not in CHECKS: continue
        c = CHECKS[pid]
        checks.append({
            "property_id": pid,
            "quick_cmd": f"./check {pid} quick",
            "thorough_cmd": f"./check {pid} thorough",
            "evidence_file": f"/verif/evidence/{pid}.json",
            "replay_cmd_template": "./check replay {path}",
            "engine": "dsim",
            "level_claimed": {"category": c["level"], "text": c["text"], "design_ref": c["design"]},
            "level_note": c["note"],
            "technique": c["technique"],
        })
    na = [{"property_id": p, "reason": NA.get(p, NA_REASON)} for p in props if p not in CHECKS]
    m = {
        "version": 1,
        "setup_cmd": "./check setup",
        "hooks": {
            "guard": "verif",
            "enable": "no hooks exist in /repo: every seam is an interface the simulator implements (backend.Storage, io.Reader/Writer, fs.FS) or is injected at build time with go build -overlay; checks build /repo's working tree as is",
            "baseline_off_cmd": "cd /repo && go test -vet=off -count=1 -timeout 25m ./...",
            "source_commits": [],
            "add_only": True,
        },
        "engines": [{"name": "dsim", "path": "/verif/sim", "serves_properties": sorted(CHECKS), "kind_free_text": "deterministic simulator: SimDisk (sparse device, write-back cache/crash images, write guard, read accounting, corruption), seeded trace generator, ddmin shrinker, replay files, worker processes"}],
        "checks": checks,
        "not_applicable": na,
        "notes": "See DESIGN.md. VERIF_SEED selects the seed (default 1); VERIF_SECONDS/VERIF_RUNS/VERIF_WORKERS override budgets. Exit 2 = build/infrastructure trouble, never a violation.",
    }
    json.dump(m, open(os.path.join(HERE, "MANIFEST.json"), "w"), indent=1)
    print("claimed:", sorted(CHECKS), "unclaimed:", [x["property_id"] for x in na])

NA = {}
if __name__ == "__main__":
    main()
