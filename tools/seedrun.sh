#!/bin/bash
# tools/seedrun.sh <seeded-id> <patch> <check> [tier] : applies a deliberately property-breaking patch to /repo,
# runs one check against it with replays/evidence redirected to /dev/shm/seedrun/<seeded-id>/<check>, restores /repo.
# Prints one line: <seeded-id> <check> <tier> CAUGHT|MISSED|BROKEN rc=<rc> <first violation signature>
set -u
id="$1"; patch="$(realpath "$2")"; chk="$3"; tier="${4:-quick}"
cd "$(dirname "$0")/.."
if ! git -C /repo diff --quiet; then echo "$id $chk $tier SKIPPED /repo has local changes"; exit 2; fi
if ! git -C /repo apply --check "$patch" 2>/dev/null; then echo "$id $chk $tier SKIPPED patch does not apply"; exit 2; fi
git -C /repo apply "$patch"
out="/dev/shm/seedrun/$id/$chk"; rm -rf "$out"; mkdir -p "$out"
VERIF_OUT="$out" ./check "$chk" "$tier" >"$out/log.txt" 2>&1; rc=$?
git -C /repo checkout -- . ; git -C /repo clean -fdq
sig=$(grep -m1 "^violation signature:" "$out/log.txt" | cut -c22-160)
case $rc in
  0) v=MISSED ;;
  1) v=CAUGHT ;;
  *) v="BROKEN" ;;
esac
line="$id $chk $tier $v rc=$rc $sig"; echo "$line"; [ -d "seeded/$id" ] && echo "$line" >> "seeded/$id/results.txt"
