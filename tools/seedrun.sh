#!/bin/bash
# tools/seedrun.sh <seeded-id> <patch> <check> [tier] : applies a deliberately property-breaking patch to /repo,
# runs one check against it with replays/evidence redirected to /dev/shm/seedrun/<seeded-id>/<check>, restores /repo.
# Prints one line: <seeded-id> <check> <tier> CAUGHT|MISSED|BROKEN rc=<rc> <first violation signature>
set -u
id="$1"; patch="$(realpath "$2")"; chk="$3"; tier="${4:-quick}"
cd "$(dirname "$0")/.."
# the change is applied to a scratch worktree of /repo's HEAD (outside /repo and /verif, removed afterwards), so
# that /repo itself is never modified and checks of the real tree can run at the same time
wt="/dev/shm/seedrepo-$id-$chk"
git -C /repo worktree remove --force "$wt" >/dev/null 2>&1; rm -rf "$wt"
git -C /repo worktree add --detach -q "$wt" HEAD || { echo "$id $chk $tier SKIPPED cannot create worktree"; exit 2; }
if ! git -C "$wt" apply "$patch" 2>/dev/null; then
  git -C /repo worktree remove --force "$wt"; echo "$id $chk $tier SKIPPED patch does not apply"; exit 2
fi
out="/dev/shm/seedrun/$id/$chk"; rm -rf "$out"; mkdir -p "$out"
VERIF_REPO="$wt" VERIF_OUT="$out" ./check "$chk" "$tier" >"$out/log.txt" 2>&1; rc=$?
git -C /repo worktree remove --force "$wt"; rm -rf ".build/alt-$(echo "$wt" | tr '/' '_')"
sig=$(grep -m1 "^violation signature:" "$out/log.txt" | cut -c22-160)
case $rc in
  0) v=MISSED ;;
  1) v=CAUGHT ;;
  *) v="BROKEN" ;;
esac
line="$id $chk $tier $v rc=$rc $sig"; echo "$line"; [ -d "seeded/$id" ] && echo "$line" >> "seeded/$id/results.txt"
