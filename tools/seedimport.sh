#!/bin/bash
# tools/seedimport.sh Cnn : copies the sub-agent's results for property Cnn from /tmp/out-Cnn into /verif/seeded/Cnn-A and Cnn-B
set -u
id="$1"; cd "$(dirname "$0")/.."
for x in A B C D E F G H I J K L M N; do
  [ -f "/tmp/out-$id/patch-$x.diff" ] || continue
  d="seeded/$id-$x"; [ -d "$d" ] && continue   # already imported: keep its results
  mkdir -p "$d"
  cp "/tmp/out-$id/patch-$x.diff" "$d/patch.diff"
  [ -f "/tmp/out-$id/meta-$x.json" ] && cp "/tmp/out-$id/meta-$x.json" "$d/meta.json"
  [ -d "/tmp/out-$id/demo-$x" ] && cp -r "/tmp/out-$id/demo-$x" "$d/demo"
  echo "imported $d ($(wc -l < "$d/patch.diff") diff lines)"
done
