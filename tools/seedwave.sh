#!/bin/bash
# tools/seedwave.sh [tier] <seeded-id>... : runs each seeded change against its own property's check, sequentially
cd "$(dirname "$0")/.."
tier="$1"; shift
for sid in "$@"; do
  prop="${sid%%-*}"
  tools/seedrun.sh "$sid" "seeded/$sid/patch.diff" "$prop" "$tier"
done
