#!/usr/bin/env python3
"""Builds seeded/INDEX.md from seeded/*/meta.json and seeded/*/results.txt (lines written by tools/seedrun.sh)."""
import json, os, glob
root = os.path.join(os.path.dirname(os.path.abspath(__file__)), '..', 'seeded')
rows = []
for d in sorted(glob.glob(os.path.join(root, 'C*-*'))):
    sid = os.path.basename(d)
    meta = {}
    try: meta = json.load(open(os.path.join(d, 'meta.json')))
    except Exception: pass
    res = []
    rp = os.path.join(d, 'results.txt')
    if os.path.exists(rp):
        for ln in open(rp):
            p = ln.split(None, 5)
            if len(p) >= 4: res.append((p[1], p[2], p[3], p[5].strip() if len(p) > 5 else ''))
    caught = [f"{c} {t}" for c, t, v, s in res if v == 'CAUGHT']
    missed = [f"{c} {t}" for c, t, v, s in res if v == 'MISSED']
    sig = next((s for c, t, v, s in res if v == 'CAUGHT' and s), '')
    rows.append((sid, ', '.join(meta.get('files', [])), meta.get('summary', '').replace('|', '/'), ', '.join(caught) or '-', ', '.join(missed) or '-', sig.replace('|', ' / ')))
with open(os.path.join(root, 'INDEX.md'), 'w') as f:
    f.write("# Seeded property-breaking changes\n\nWritten by sub-agents that saw only the property text and a scratch worktree of /repo. Each `patch.diff` applies to /repo with `git apply`; `demo/` holds the author's own demonstration; `results.txt` holds the outcome of `tools/seedrun.sh` (check run against /repo with the patch applied, evidence and replays redirected away from /verif, /repo restored afterwards).\n\n")
    f.write("| id | file | change | caught by | missed by | first signature |\n|---|---|---|---|---|---|\n")
    for r in rows: f.write("| " + " | ".join(r) + " |\n")
    n = len(rows); c = sum(1 for r in rows if r[3] != '-')
    f.write(f"\n{c} of {n} changes are caught by at least one check.\n")
print(open(os.path.join(root, 'INDEX.md')).read()[-200:])
