#!/usr/bin/env python3
"""Runs the repository's pinned test suite (guard off) and compares with /root/.vp/BASELINE.json stable_pass."""
import json, subprocess, sys, os
base = json.load(open('/root/.vp/BASELINE.json'))
want = set(base['stable_pass'])
env = dict(os.environ)
for k in ('GOFLAGS','GOTOOLCHAIN','GOSUMDB'):
    env.pop(k, None)
p = subprocess.run(['go','test','-json','-vet=off','-count=1','-timeout','25m','./...'], cwd=(sys.argv[1] if len(sys.argv) > 1 else '/repo'), env=env, capture_output=True, text=True)
passed=set(); failed=set()
for ln in p.stdout.splitlines():
    try: e=json.loads(ln)
    except Exception: continue
    if e.get('Test') and e.get('Action') in ('pass','fail'):
        name=f"{e['Package']}::{e['Test']}"
        (passed if e['Action']=='pass' else failed).add(name)
missing = sorted(want - passed)
print(f"baseline: {len(want & passed)}/{len(want)} stable tests pass; {len(failed)} failing tests overall")
for m in missing: print("  NOT PASSING:", m)
sys.exit(1 if missing else 0)
